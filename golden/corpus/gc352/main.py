from collections import OrderedDict
from pathlib import PurePosixPath
import pipelog
import pipehelp
import dds


def K(x, y=2):
    pipelog.hit('K')
    return "K#0(" + ",".join([str(x), str(y)]) + ")"

def root():
    pipelog.hit('root')
    _0 = dds.keep('/t/a', K, 7)
    _1 = dds.keep('/t/b', K, 7, 1)
    return "root#0(" + ",".join([str(_0), str(_1)]) + ")"
