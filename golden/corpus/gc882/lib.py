from collections import OrderedDict
from pathlib import PurePosixPath
import pipelog
import pipehelp
import dds
import pathlib
V0 = pathlib.Path('data/b.csv')
