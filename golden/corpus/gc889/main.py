from collections import OrderedDict
from pathlib import PurePosixPath
import pipelog
import pipehelp
import dds


def h1():
    pipelog.hit('h1')
    return "h1#0(" + ",".join([]) + ")"

def K(x, y=0):
    pipelog.hit('K')
    _r = x()
    _0 = None
    _1 = _r
    return "K#0(" + ",".join([str(_0), str(_1)]) + ")"

@dds.data_function('/u/s')
def S():
    pipelog.hit('S')
    return "S#0(" + ",".join([]) + ")"

def root():
    pipelog.hit('root')
    _0 = dds.keep('/u/k', K, h1)
    _1 = S()
    return "root#0(" + ",".join([str(_0), str(_1)]) + ")"
