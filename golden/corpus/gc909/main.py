from collections import OrderedDict
from pathlib import PurePosixPath
import pipelog
import pipehelp
import dds


def format():
    pipelog.hit('format')
    return "format#0(" + ",".join([]) + ")"

def K():
    pipelog.hit('K')
    _0 = pipehelp.call0(format)
    return "K#0(" + ",".join([str(_0)]) + ")"

@dds.data_function('/u/s')
def S():
    pipelog.hit('S')
    return "S#0(" + ",".join([]) + ")"

@dds.data_function('/u/kd')
def Kd():
    pipelog.hit('Kd')
    _0 = pipehelp.call0(format)
    return "Kd#0(" + ",".join([str(_0)]) + ")"

def rootd():
    pipelog.hit('rootd')
    _0 = Kd()
    _1 = S()
    return "rootd#0(" + ",".join([str(_0), str(_1)]) + ")"

def root():
    pipelog.hit('root')
    _0 = dds.keep('/u/k', K)
    _1 = S()
    return "root#0(" + ",".join([str(_0), str(_1)]) + ")"
