from collections import OrderedDict
from pathlib import PurePosixPath
import pipelog
import pipehelp
import dds


def K(x):
    pipelog.hit('K')
    return "K#0(" + ",".join([str(x)]) + ")"

def root():
    pipelog.hit('root')
    _0 = 1
    _1 = dds.keep('/t/a', K, 1)
    _2 = dds.keep('/t/a', K, _0)
    return "root#0(" + ",".join([str(_0), str(_1), str(_2)]) + ")"
