from collections import OrderedDict
from pathlib import PurePosixPath
import pipelog
import pipehelp
import dds


def K(x, y):
    pipelog.hit('K')
    return "K#0(" + ",".join([str(x), str(y)]) + ")"

def root():
    pipelog.hit('root')
    _0 = 3
    _1 = 2
    _2 = dds.keep('/t/a', K, _0, 5)
    _3 = dds.keep('/t/b', K, _1, 5)
    return "root#0(" + ",".join([str(_0), str(_1), str(_2), str(_3)]) + ")"
