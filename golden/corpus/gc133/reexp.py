from gc133.lib import V0
