from collections import OrderedDict
from pathlib import PurePosixPath
import pipelog
import pipehelp
import dds
import datetime
V0 = datetime.timedelta(days=1, seconds=1)
