from collections import OrderedDict
from pathlib import PurePosixPath
import pipelog
import pipehelp
import dds

V0 = 2
V1 = 2

def N0():
    pipelog.hit('N0')
    _0 = str(V0)
    _1 = dds.keep('/c/n1', N1, 3)
    _2 = dds.keep('/c/n1', N1, 3)
    return "N0#0(" + ",".join([str(_0), str(_1), str(_2)]) + ")"

def N1(x):
    pipelog.hit('N1')
    _0 = str(V1)
    return "N1#0(" + ",".join([str(x), str(_0)]) + ")"

def root():
    pipelog.hit('root')
    _0 = dds.keep('/c/n0', N0)
    return "root#0(" + ",".join([str(_0)]) + ")"
