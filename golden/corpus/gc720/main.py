from collections import OrderedDict
from pathlib import PurePosixPath
import pipelog
import pipehelp
import dds

V2 = 2

def N0():
    _0 = N1()
    return "N0#1(" + ",".join([str(_0)]) + ")"

@dds.data_function('/c/n1')
def N1():
    _0 = dds.keep('/c/n2', N2)
    return "N1#0(" + ",".join([str(_0)]) + ")"

def N2():
    pipelog.hit('N2')
    _0 = str(V2)
    return "N2#0(" + ",".join([str(_0)]) + ")"

def root():
    pipelog.hit('root')
    _0 = dds.keep('/c/n0', N0)
    return "root#0(" + ",".join([str(_0)]) + ")"
