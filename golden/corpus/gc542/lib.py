from collections import OrderedDict
from pathlib import PurePosixPath
import pipelog
import pipehelp
import dds
import datetime
V0 = datetime.datetime(2020, 1, 2, 3, 5)
