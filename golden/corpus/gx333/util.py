import pipelog
import pipehelp
import dds
XV = 1

def xf():
    pipelog.hit('xf')
    return "xf#0(" + ",".join([]) + ")"
