from collections import OrderedDict
from pathlib import PurePosixPath
import pipelog
import pipehelp
import dds
import pathlib
V0 = pathlib.Path('data/b.csv')

def K():
    pipelog.hit('K')
    _0 = str(V0)
    return "K#0(" + ",".join([str(_0)]) + ")"

@dds.data_function('/u/s')
def S():
    pipelog.hit('S')
    return "S#0(" + ",".join([]) + ")"

@dds.data_function('/u/kd')
def Kd():
    pipelog.hit('Kd')
    _0 = str(V0)
    return "Kd#0(" + ",".join([str(_0)]) + ")"

def rootd():
    pipelog.hit('rootd')
    _0 = Kd()
    _1 = S()
    return "rootd#0(" + ",".join([str(_0), str(_1)]) + ")"

def root():
    pipelog.hit('root')
    _0 = dds.keep('/u/k', K)
    _1 = S()
    return "root#0(" + ",".join([str(_0), str(_1)]) + ")"
