from collections import OrderedDict
from pathlib import PurePosixPath
import pipelog
import pipehelp
import dds
from dds import keep, load, data_function


