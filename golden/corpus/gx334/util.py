import pipelog
import pipehelp
import dds
XV = 1

def xf():
    pipelog.hit('xf')
    return "xf#1(" + ",".join([]) + ")"
