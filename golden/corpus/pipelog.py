cur = []
fault = None
def hit(name):
    cur.append(name)
    if fault is not None and fault[0] == name:
        raise fault[1]
