from collections import OrderedDict
from pathlib import PurePosixPath
import pipelog
import pipehelp
import dds


def h1():
    pipelog.hit('h1')
    return "h1#1(" + ",".join([]) + ")"
