from gc132.lib import h1
