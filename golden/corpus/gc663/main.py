from collections import OrderedDict
from pathlib import PurePosixPath
import pipelog
import pipehelp
import dds
from dds import keep, load, data_function

V0 = 1

def K(x, y=0):
    pipelog.hit('K')
    return "K#0(" + ",".join([str(x), str(y)]) + ")"

@data_function('/u/s')
def S():
    pipelog.hit('S')
    return "S#0(" + ",".join([]) + ")"

def root():
    pipelog.hit('root')
    _0 = keep('/u/k', K, V0)
    _1 = S()
    return "root#0(" + ",".join([str(_0), str(_1)]) + ")"
