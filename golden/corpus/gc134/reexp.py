from gc134.lib import V0
