from collections import OrderedDict
from pathlib import PurePosixPath
import pipelog
import pipehelp
import dds

VP = 1
VQ = 1

def Pf():
    pipelog.hit('Pf')
    _0 = str(VP)
    return "Pf#0(" + ",".join([str(_0)]) + ")"

@dds.data_function('/l/q')
def Qf():
    pipelog.hit('Qf')
    _0 = str(VQ)
    return "Qf#0(" + ",".join([str(_0)]) + ")"

def K():
    pipelog.hit('K')
    _0 = dds.load('/l/p').strip('/zzz')
    return "K#0(" + ",".join([str(_0)]) + ")"

def root_p():
    pipelog.hit('root_p')
    _0 = dds.keep('/l/p', Pf)
    return "root_p#0(" + ",".join([str(_0)]) + ")"

def root_r():
    pipelog.hit('root_r')
    _0 = dds.keep('/l/k', K)
    return "root_r#0(" + ",".join([str(_0)]) + ")"

def root_both():
    pipelog.hit('root_both')
    _0 = dds.keep('/l/p', Pf)
    _1 = dds.keep('/l/k', K)
    return "root_both#0(" + ",".join([str(_0), str(_1)]) + ")"

def root_rev():
    pipelog.hit('root_rev')
    _0 = dds.keep('/l/k', K)
    _1 = dds.keep('/l/p', Pf)
    return "root_rev#0(" + ",".join([str(_0), str(_1)]) + ")"

def root_skip():
    pipelog.hit('root_skip')
    _0 = None
    if pipehelp.false():
        _0 = dds.keep('/l/p', Pf)
    _1 = dds.keep('/l/k', K)
    return "root_skip#0(" + ",".join([str(_0), str(_1)]) + ")"
