from collections import OrderedDict
from pathlib import PurePosixPath
import pipelog
import pipehelp
import dds

V0 = 1

def K(x, y=0):
    pipelog.hit('K')
    return "K#0(" + ",".join([str(x), str(y)]) + ")"

@dds.data_function('/u/s')
def S():
    pipelog.hit('S')
    return "S#0(" + ",".join([]) + ")"

def root():
    pipelog.hit('root')
    _0 = dds.keep('/u/k', K, 7, **{'y': V0})
    _1 = S()
    return "root#0(" + ",".join([str(_0), str(_1)]) + ")"
