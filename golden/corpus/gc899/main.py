from collections import OrderedDict
from pathlib import PurePosixPath
import pipelog
import pipehelp
import dds

FLAG = True

def G():
    pipelog.hit('G')
    return "G#0(" + ",".join([]) + ")"

@dds.data_function('/u/s')
def S():
    pipelog.hit('S')
    return "S#0(" + ",".join([]) + ")"

def root():
    pipelog.hit('root')
    _0 = None
    if FLAG:
        _0 = dds.keep('/u/c', G)
    _1 = S()
    return "root#0(" + ",".join([str(_0), str(_1)]) + ")"

def root2():
    pipelog.hit('root2')
    _0 = S()
    return "root2#0(" + ",".join([str(_0)]) + ")"
