from collections import OrderedDict
from pathlib import PurePosixPath
import pipelog
import pipehelp
import dds


