from collections import OrderedDict
from pathlib import PurePosixPath
import pipelog
import pipehelp
import dds


class C(object):
    def __init__(self):
        self.v = ''
    def m(self):
        pipelog.hit('C')
        return "C#0(" + ",".join([self.v]) + ")"
