from collections import OrderedDict
from pathlib import PurePosixPath
import pipelog
import pipehelp
import dds


def h1():
    pipelog.hit('h1')
    return "h1#1(" + ",".join([]) + ")"

def K(x, y=0):
    pipelog.hit('K')
    return "K#0(" + ",".join([str(x), str(y)]) + ")"

@dds.data_function('/u/s')
def S():
    pipelog.hit('S')
    return "S#0(" + ",".join([]) + ")"

def root():
    pipelog.hit('root')
    _0 = h1()
    _1 = h1()
    _2 = dds.keep('/u/k', K, _0)
    _3 = S()
    return "root#0(" + ",".join([str(_0), str(_1), str(_2), str(_3)]) + ")"
