from collections import OrderedDict
from pathlib import PurePosixPath
import pipelog
import pipehelp
import dds

V0 = 2
V1 = 2
V2 = 2

def N0(x):
    pipelog.hit('N0')
    _0 = str(V0)
    _1 = dds.keep('/c/n1', N1)
    _2 = dds.keep('/c/n2', N2, V2)
    return "N0#0(" + ",".join([str(x), str(_0), str(_1), str(_2)]) + ")"

def N1():
    pipelog.hit('N1')
    _0 = str(V1)
    return "N1#0(" + ",".join([str(_0)]) + ")"

def N2(x):
    pipelog.hit('N2')
    _0 = str(V2)
    return "N2#0(" + ",".join([str(x), str(_0)]) + ")"

def root():
    pipelog.hit('root')
    _0 = dds.keep('/c/n0', N0, 3)
    return "root#0(" + ",".join([str(_0)]) + ")"
