"""Hand-written pipelines in the style of the library's own tests (lambdas, *args, classes, typed paths,
containers as tracked variables, keyword arguments). Pinned: never edit; signatures are in ../sigs.json."""
import pathlib
from collections import OrderedDict
from typing import NewType

import dds

x = 1
l = [1, 2]
d = {0: 1, "k": [1, (2, 3)]}
od = OrderedDict([("a", 1), ("b", None)])
pp = pathlib.PurePosixPath("some/where")
flag = True
tup = (1, "a", 2.5)
MyPath = NewType("MyPath", str)
typed_path = MyPath("/typed/p")
p2 = pathlib.Path("/path2")


def lam1():
    return dds.keep("/lam/one", lambda: 1)


def lam2():
    return dds.keep(
        "/lam/two",
        lambda: (
            # comment
            x
            +
            # comment
            x
        ),
    )


def f1(a, b, c):
    return a + b + c


def star_args():
    kargs = [1, 2, 3]
    return dds.keep("/star/p1", f1, *kargs)


def f2(*args, **kwargs):
    return len(args) + len(kwargs)


def star_star():
    kargs = [1, 2, 3]
    return dds.keep("/star/p2", f2, *kargs)


@dds.data_function("/cont/list")
def reads_list():
    return len(l)


@dds.data_function("/cont/dict")
def reads_dict():
    return len(d) + len(od)


@dds.data_function("/cont/misc")
def reads_misc():
    return (str(pp), flag, tup)


def containers():
    return (reads_list(), reads_dict(), reads_misc())


class Model(object):
    def __init__(self, n=3):
        self.n = n * x

    def fit(self):
        return self.n + len(l)


def uses_class():
    return Model().fit()


def class_pipeline():
    return dds.keep(typed_path, uses_class)


def g(a, b=0, c="x", d=None):
    return (a, b, c, d)


def keyword_calls():
    r1 = dds.keep("/kw/one", g, 1)
    r2 = dds.keep("/kw/two", g, 1, c="y", b=2)
    r3 = dds.keep("/kw/three", g, a=-1, d=None)
    return (r1, r2, r3)


def _leaf():
    return "a"


def leaf():
    return dds.keep("/nest/leaf", _leaf)


def twice():
    leaf()
    leaf()


def nested():
    twice()
    return leaf()


def path_object():
    return dds.keep(p2, nested)
