from collections import OrderedDict
from pathlib import PurePosixPath
import pipelog
import pipehelp
import dds

V0 = 2

@dds.data_function('/c/n0')
def N0():
    pipelog.hit('N0')
    _0 = str(V0)
    return "N0#0(" + ",".join([str(_0)]) + ")"

def root():
    pipelog.hit('root')
    _0 = N0()
    return "root#0(" + ",".join([str(_0)]) + ")"
