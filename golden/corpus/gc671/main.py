from collections import OrderedDict
from pathlib import PurePosixPath
import pipelog
import pipehelp
import dds

V1 = 1

def N0():
    _0 = dds.keep('/c/n1', N1)
    return "N0#0(" + ",".join([str(_0)]) + ")"

def N1():
    pipelog.hit('N1')
    _0 = str(V1)
    return "N1#0(" + ",".join([str(_0)]) + ")"

def root():
    pipelog.hit('root')
    _0 = dds.keep('/c/n0', N0)
    return "root#0(" + ",".join([str(_0)]) + ")"
