from gc131.lib import h1
