import contextlib
def call0(f):
    return f()
def true():
    return True
def false():
    return False
@contextlib.contextmanager
def ctx():
    yield None
def ident(x=None):
    return x
def first(*a):
    return a[0]
def in_thread(f):
    """runs f in a worker thread started (and joined) inside the evaluation"""
    import threading
    out = []
    def run():
        try:
            out.append(("ok", f()))
        except BaseException as e:
            out.append(("exc", e))
    t = threading.Thread(target=run)
    t.start()
    t.join()
    if out[0][0] == "exc":
        raise out[0][1]
    return out[0][1]
class Thing(object):
    """an object of a type dds does not track"""
    def __str__(self):
        return "thing"
