import contextlib
def call0(f):
    return f()
def true():
    return True
def false():
    return False
@contextlib.contextmanager
def ctx():
    yield None
def ident(x=None):
    return x
def first(*a):
    return a[0]
class Thing(object):
    """an object of a type dds does not track"""
    def __str__(self):
        return "thing"
