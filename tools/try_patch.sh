#!/bin/bash
# tools/try_patch.sh <patch.diff> <ID> [tier]  : apply a seeded change to /repo, run the check, undo the change
set -u
P=$1; ID=$2; TIER=${3:-quick}
cd /repo || exit 9
git diff --quiet || { echo "repo dirty"; exit 9; }
if ! git apply --whitespace=nowarn "$P" 2>/tmp/apply_err.txt; then
  if ! patch -p1 --binary -s < "$P" >/tmp/apply_err.txt 2>&1; then echo "PATCH DOES NOT APPLY: $(head -3 /tmp/apply_err.txt)"; git checkout -- .; exit 8; fi
fi
cd /verif && ./check "$ID" --tier "$TIER" 2>&1 | grep -E "cause=|^VIOLATION|^KNOWN|HARNESS|tier=" | cut -c1-220 | head -${LINES_MAX:-12}
rc=${PIPESTATUS[0]}
cd /repo && git checkout -- . && git clean -fdq dds 2>/dev/null
echo "exit=$rc"
