#!/bin/bash
# tools/try_patch.sh <ABSOLUTE patch.diff> <ID> [tier]  : apply a seeded change to a scratch worktree of /repo HEAD, run the check
# against it (VERIF_REPO), remove the worktree. /repo itself is never touched.
set -u
P=$1; ID=$2; TIER=${3:-quick}
WT=$(mktemp -d /tmp/ddsvt_trywt_XXXX); rmdir "$WT"
git -C /repo worktree add -q --detach "$WT" HEAD || exit 9
OUT=$(mktemp -d /tmp/ddsvt_tryout_XXXX)
trap 'git -C /repo worktree remove --force "$WT" 2>/dev/null; rm -rf "$WT" "$OUT"' EXIT
if ! git -C "$WT" apply --whitespace=nowarn "$P" 2>/dev/null; then
  if ! patch -p1 --binary -s -d "$WT" < "$P" >/dev/null 2>&1; then echo "PATCH DOES NOT APPLY"; exit 8; fi
fi
cd /verif && VERIF_REPO="$WT" VERIF_OUT="$OUT" /venv/bin/python -m vt.runner "$ID" --tier "$TIER" 2>&1 | grep -E "cause=|^VIOLATION|^KNOWN|HARNESS|tier=" | cut -c1-220 | head -${LINES_MAX:-12}
rc=${PIPESTATUS[0]}
echo "exit=$rc"
