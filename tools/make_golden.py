#!/venv/bin/python
"""Writes the pinned corpus (sources + index) and, with --pin, the signature file. Run by hand only when the corpus is
(re)pinned after 'fix:' commits; checks never call it."""
import json
import os
import shutil
import sys

sys.path.insert(0, "/verif")
from vt import core
core.ensure_repo_dds()
from vt.progmc import family as F, spec as S, world as W
from vt.checks import c09

ROOT = "/verif/golden"
CORPUS = os.path.join(ROOT, "corpus")


def select():
    units = F.unit_programs("quick")
    keep = []
    seen = set()
    for sp in units:
        k = sp["key"]
        if k.startswith("var|") and not sp["id"].endswith(("/direct", "/helper2", "/method", "/init")) and "ctx=" not in k:
            continue
        if k in seen and not k.startswith(("body|", "arg|")):
            continue
        seen.add(k)
        keep.append(sp)
    comps = [sp for sp in F.composites() if len([f for f in sp["funcs"] if f["name"].startswith("N")]) <= 3][::3]
    loads = [c09.make_spec(pl, pr) for pl in c09.PLACEMENTS for pr in ("datafn", "keepcall")]
    for sp in loads:
        sp["entries"] = {"both": sp["entries"]["both"], "produce": sp["entries"]["produce"]}
    return keep + comps + loads


def main():
    pin = "--pin" in sys.argv
    if "--write" in sys.argv:
        for d in os.listdir(CORPUS):
            if d.startswith("gc") and d != "gc_manual":
                shutil.rmtree(os.path.join(CORPUS, d))
        index = {}
        n = 0
        for sp in select():
            vs = list(S.variants(sp))
            for v in ([vs[0], vs[-1]] if len(vs) > 1 else vs):
                n += 1
                pkg, xpkg = f"gc{n:03d}", f"gx{n:03d}"
                for rel, text in S.render(sp, v, pkg, xpkg).items():
                    p = os.path.join(CORPUS, rel)
                    os.makedirs(os.path.dirname(p), exist_ok=True)
                    open(p, "w").write(text)
                ents = {}
                r = S.Renderer(sp, v, pkg, xpkg)
                for name, e in sp["entries"].items():
                    f = S._fn(sp, e["fn"])
                    ents[name] = {"kind": e["kind"], "fn": e["fn"], "module": f"{pkg}.{f['module']}", "path": e.get("path"),
                                  "args": [r.epv(a) for a in e.get("args", [])], "kwargs": [[k, r.epv(a)] for k, a in e.get("kwargs", [])]}
                index[pkg] = {"program": sp["id"], "variant": v, "entries": ents}
        m = "gc_manual.main"
        index["gc_manual"] = {"program": "manual", "variant": {}, "entries": {
            n_: {"kind": k_, "fn": n_, "module": m, "path": p_, "args": [], "kwargs": []} for n_, k_, p_ in
            [("lam1", "call", None), ("lam2", "call", None), ("star_args", "eval", None), ("star_star", "eval", None), ("containers", "eval", None),
             ("class_pipeline", "eval", None), ("keyword_calls", "eval", None), ("path_object", "eval", None), ("nested", "keep", "/nest/top")]}}
        open(os.path.join(CORPUS, "pipelog.py"), "w").write(W.PIPELOG)
        open(os.path.join(CORPUS, "pipehelp.py"), "w").write(W.PIPEHELP)
        json.dump(index, open(os.path.join(ROOT, "index.json"), "w"), indent=0, sort_keys=True)
        print("corpus:", len(index), "packages")
    if "--append" in sys.argv:
        # programs added to the family since the corpus was written: new packages after the existing ones (which stay untouched)
        index = json.load(open(os.path.join(ROOT, "index.json")))
        have = {(v["program"], json.dumps(v["variant"], sort_keys=True)) for v in index.values()}
        n = max(int(k[2:]) for k in index if k[2:].isdigit())
        added = 0
        open(os.path.join(CORPUS, "pipelog.py"), "w").write(W.PIPELOG)
        open(os.path.join(CORPUS, "pipehelp.py"), "w").write(W.PIPEHELP)
        for sp in select():
            if any(f["module"].startswith("H:") for f in sp["funcs"]):
                continue   # needs a second top-level package next to it: not a corpus shape
            vs = list(S.variants(sp))
            for v in ([vs[0], vs[-1]] if len(vs) > 1 else vs):
                if (sp["id"], json.dumps(v, sort_keys=True)) in have:
                    continue
                n += 1
                added += 1
                pkg, xpkg = f"gc{n:03d}", f"gx{n:03d}"
                for rel, text in S.render(sp, v, pkg, xpkg).items():
                    p = os.path.join(CORPUS, rel)
                    os.makedirs(os.path.dirname(p), exist_ok=True)
                    open(p, "w").write(text)
                ents = {}
                r = S.Renderer(sp, v, pkg, xpkg)
                for name, e in sp["entries"].items():
                    f = S._fn(sp, e["fn"])
                    ents[name] = {"kind": e["kind"], "fn": e["fn"], "module": f"{pkg}.{f['module']}", "path": e.get("path"),
                                  "args": [r.epv(a) for a in e.get("args", [])], "kwargs": [[k, r.epv(a)] for k, a in e.get("kwargs", [])]}
                index[pkg] = {"program": sp["id"], "variant": v, "entries": ents}
        json.dump(index, open(os.path.join(ROOT, "index.json"), "w"), indent=0, sort_keys=True)
        print("appended", added, "packages; corpus now", len(index))
    if pin:
        from vt.checks import c03
        sigs = c03.corpus_signatures()
        bad = {k: v for k, v in sigs.items() if any("__status__" in (e or {}) for e in v.values())}
        print("pinned", len(sigs), "packages;", len(bad), "with refusing entries")
        json.dump(sigs, open(os.path.join(ROOT, "sigs.json"), "w"), indent=0, sort_keys=True)


if __name__ == "__main__":
    main()
