#!/bin/bash
# tools/qualify_seed.sh <dir with patch.diff demo.py notes.md> <seed-id> <property>
# Confirms in a scratch worktree of /repo HEAD: suite passes with the change, demo fails with it and passes without.
# On success copies the material to /verif/seeded/<seed-id>/ with meta.json.
set -u
SRC=$1; SID=$2; PROP=$3
WT=$(mktemp -d /tmp/ddsvt_seedwt_XXXX); rmdir "$WT"
git -C /repo worktree add -q --detach "$WT" HEAD || exit 9
cleanup() { git -C /repo worktree remove --force "$WT" 2>/dev/null; rm -rf "$WT"; }
trap cleanup EXIT
cd "$WT"
if ! git apply --whitespace=nowarn "$SRC/patch.diff" 2>/dev/null; then
  patch -p1 --binary -s < "$SRC/patch.diff" >/dev/null 2>&1 || { echo "$SID: PATCH DOES NOT APPLY to HEAD"; exit 8; }
fi
git diff > /tmp/_seed_patch.diff
SUITE=$(PYTHONPATH="$WT" /venv/bin/python -m pytest -q -p no:cacheprovider --timeout=900 dds_tests 2>&1 | tail -1)
echo "$SUITE" | grep -q "59 passed" || { echo "$SID: SUITE FAILS with change: $SUITE"; exit 7; }
( cd /tmp && PYTHONPATH="$WT" timeout 600 /venv/bin/python "$SRC/demo.py" >/tmp/_seed_demo_with.txt 2>&1 ); RC_WITH=$?
git checkout -q -- . ; git clean -fdq dds
( cd /tmp && PYTHONPATH="$WT" timeout 600 /venv/bin/python "$SRC/demo.py" >/tmp/_seed_demo_without.txt 2>&1 ); RC_WITHOUT=$?
if [ "$RC_WITH" = 0 ] || [ "$RC_WITHOUT" != 0 ]; then echo "$SID: DEMO not discriminating: with=$RC_WITH without=$RC_WITHOUT"; exit 6; fi
D=/verif/seeded/$SID; mkdir -p "$D"
cp /tmp/_seed_patch.diff "$D/patch.diff"; cp "$SRC/demo.py" "$D/demo.py"; [ -f "$SRC/notes.md" ] && cp "$SRC/notes.md" "$D/notes.md"
python3 - "$D" "$SID" "$PROP" "$SUITE" "$RC_WITH" "$RC_WITHOUT" "$(git -C /repo rev-parse --short HEAD)" <<'PY'
import json, sys, os
d, sid, prop, suite, rw, rwo, head = sys.argv[1:]
notes = open(os.path.join(d, "notes.md")).read() if os.path.exists(os.path.join(d, "notes.md")) else ""
json.dump({"id": sid, "breaks_property": prop, "needs_to_manifest": notes.strip().split("\n\n")[0][:600],
           "qualified_against_repo_commit": head,
           "ran": {"suite_with_change": suite.strip(), "demo_exit_with_change": int(rw), "demo_exit_without_change": int(rwo),
                   "how": "scratch git worktree of /repo HEAD; PYTHONPATH=<worktree> /venv/bin/python -m pytest dds_tests; PYTHONPATH=<worktree> /venv/bin/python demo.py"},
           "detected_by": None}, open(os.path.join(d, "meta.json"), "w"), indent=1)
PY
echo "$SID: QUALIFIED (suite ok, demo with=$RC_WITH without=$RC_WITHOUT)"
