#!/bin/bash
# runs every quick check for several VERIF_SEED values, each from a fresh process; prints any line that is not silent
cd "$(dirname "$0")/.."
for seed in ${SEEDS:-3 17 4242}; do
  for i in 01 02 03 04 05 06 07 08 09 10 11 12 13 14 15 16 17 18 19; do
    out=$(VERIF_SEED=$seed ./check C$i --tier quick 2>&1); rc=$?
    echo "seed=$seed C$i rc=$rc $(echo "$out" | grep -c '^VIOLATION') violations $(echo "$out" | grep -c '^KNOWN-FINDING') known $(echo "$out" | grep -c 'HARNESS')  harness"
  done
done
