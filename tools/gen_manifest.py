#!/usr/bin/env python3
"""Regenerates /verif/MANIFEST.json from the table below (one place to edit)."""
import json
import os

HERE = os.path.dirname(os.path.dirname(os.path.abspath(__file__)))

SUITE = ("cd /repo && env -u DDS_PY_VERIF /venv/bin/python -m pytest -ra -q -p no:cacheprovider --timeout=900 "
         "--continue-on-collection-errors")

# id -> (engine, level, technique, text, note, design_ref)
CHECKS = {
    "C05": ("seqmc", "exploration",
            "exhaustive enumeration of a bounded value grammar with all-pairs collision check",
            "Every value of a bounded grammar (boundary ints, signed zeros, nan/inf, separator-like strings, empty and nested "
            "containers, dataclasses, dates, paths) is hashed by the real dds_hash here and in two further interpreters with "
            "other hash seeds; values are grouped by hash and every group is compared by canonical form, which decides all "
            "pairs. Totality and the size guard are checked on each value; a subset is pushed through dds.keep.",
            "canonical form of DESIGN 4.4 defines 'differ'; digest-shaped strings are outside the alphabet",
            "5/C05"),
    "C12": ("seqmc", "model_checking",
            "explicit-state BFS to closure over store operation sequences, wrapped vs bare store in lock step",
            "Breadth-first search over 19 store operations on six keys (present, absent, stored later, None-valued) and two "
            "paths: the cache-wrapped store and the bare store, both built through dds.set_store, execute every transition in lock "
            "step and every answer is compared. With the memory store underneath the reachable state space is exhausted for every "
            "capacity; with the local store underneath it is explored to a stated depth and the number of fetched objects still "
            "alive (weak references) is compared with the bound after every transition. cache_objects decoding is enumerated.",
            "state = canonical object graph of both stores (+ directory tree); the bare store is the reference model",
            "5/C12"),
    "C08": ("seqmc", "model_checking",
            "explicit-state BFS of store operation sequences against a dictionary model + exhaustive path-pair sweep",
            "Part A: breadth-first search over 27 store operations (store/has/fetch of five keys with str, bytes, None and object values, "
            "sync/fetch of a three-path window, reopen) on MemoryStore, LocalFileStore, the cache-wrapped local store and DBFSStore over a "
            "fake dbutils, every answer compared with a dictionary model; state = model + physical state. Part B: every path of 1-3 "
            "segments over {a, b, ab, 'a b', a.b, .a, e-acute, ., ..} committed alone (round trip, crash, escape from the data directory, "
            "owned locations) and all pairs committed in both orders and at once and read back; URI-special, Unicode-equivalent and "
            "bookkeeping-name segments; segment-prefix pairs committed by two separate commits. Part C: one transient I/O error at every "
            "file-system primitive of five store-level operations of the local store (in-memory file system of the fsmc engine).",
            "a key always maps to one value; segment-prefix pairs inside one commit are C11's; DBFS is a fake",
            "5/C08"),
    "C17": ("seqmc", "model_checking",
            "explicit-state BFS over store/fetch/register-codec/restart sequences with payload-tagging user codecs",
            "Breadth-first search over {store v, fetch v} for windows of three values out of 19 (str incl. empty, newline, CRLF, non-ASCII, "
            "1 MiB; bytes; bytearray; None; int; dict; object; DataFrame; user type), registration of four user codecs (two for one type, "
            "one claiming str, one CodecProtocol) and restarts that re-register in reverse order, on the local store and on DBFS(fake). "
            "User codecs tag their payload and log decodes, so reading with another codec than the one in the meta record is visible; "
            "str/bytes blob files and the file under the data directory are compared byte for byte.",
            "the codec reference in the meta record right after store_blob defines 'the codec that wrote it'",
            "5/C17"),
    "C19": ("seqmc", "model_checking",
            "explicit-state BFS of keep/eval/edit/load sequences per commit type against a model of the data directory (fake dbutils)",
            "For each documented commit-type spelling the real DBFSStore runs over a dictionary-backed fake of dbutils.fs; BFS over "
            "{keep str, keep bytes, eval with two nested keeps, edit, load x4}; after every transition the files under the data directory "
            "are compared with the model (full: byte-identical copy + redirect record; links_only: record only; none: nothing). Legacy "
            "blobs are planted the way each legacy codec wrote them and must decode to the original value.",
            "fake dbutils; documented commit types are those of the set_store docstring",
            "5/C19"),
    "C01": ("progmc", "model_checking",
            "explicit-state exploration of edit/restart/evaluate histories over a generated program family vs a dds-free reference run",
            "Every program of the family (unit programs: one dependency kind - tracked variable of each type and access form, body text at "
            "each position, callee through each import form and syntactic context, argument forms, the same function kept twice - and "
            "composites over <= 4 kept nodes) is taken through all histories of (variant of its edit cube, in-process edit or restart, "
            "evaluate) up to depth 2 (quick) / 3 (thorough) on memory / local / cache-wrapped stores; every returned value is compared "
            "with the value the same files return under a stub dds.",
            "the reference is the same generated source imported with a stub dds package; virtual restart = pristine copy of all dds module state",
            "5/C01"),
    "C02": ("progmc", "model_checking",
            "explicit-state exploration of edit/restart/copy/entry-switch histories with a cone-fingerprint oracle on the execution log",
            "Same program family and histories as C01 plus copies of the package to another accepted name, entry-style switches and "
            "structural edits (unrelated definitions, reordering, comments, non-accepted code). After every evaluation the execution log "
            "may contain a kept function only if the cone fingerprint (DESIGN 4.1, computed from the spec, never from dds) of one of its "
            "nodes has not been evaluated before on that store.",
            "cone fingerprints over-approximate DESIGN 4.1 (a larger cone only removes demands)",
            "5/C02"),
    "C04": ("progmc", "model_checking",
            "explicit-state exploration of edit/restart/evaluate histories; every committed path loaded after every evaluation",
            "Three-node pipelines kept under path sets of 1-4 segments with shared directories and concatenation-ambiguous names, two "
            "roots keeping different subsets and a kept top-level node (revert histories A,B,A to depth 3), on memory, local, cache-wrapped "
            "local and DBFS(fake): after every evaluation every path kept so far is loaded in the same process, and in a fresh process "
            "at the end of each history, and compared with the latest value the reference kept there; for the local store the file "
            "under the data directory is compared byte for byte.",
            "reference values are traces of everything that produced them",
            "5/C04"),
    "C13": ("seqmc", "exploration",
            "exhaustive enumeration of bindings x spellings x {direct call, call seen in source} with all-pairs signature comparison",
            "For functions with 1-3 (thorough 4) parameters and every default pattern over {0, False, '', None, 1, 'x'}, every tuple of values "
            "and every spelling of it (positional prefixes, keywords in every order, defaults omitted or explicit) is evaluated as a direct "
            "dds.keep call with values and as a literal call site inside an evaluated wrapper; the signature handed to the store is "
            "captured. All spellings of a binding must share one signature and two bindings that differ (canonical form) must not.",
            "documented identifications (bool=int) carry no demand",
            "5/C13"),
    "C10": ("progmc", "fault_enumeration",
            "exhaustive fault enumeration: every function of every composite program as the failing one x exception class x follow-up",
            "Every composite program (<= 3 kept nodes) x entry x every function as the failing one (armed through a module dds does not "
            "track) x exception classes incl. KeyboardInterrupt and a user BaseException x follow-up evaluation {same pipeline disarmed, "
            "still armed, another pipeline} x stores: the exception object that leaves dds must be the armed one, no blob may appear "
            "under the signature of a node that did not complete, no path may change, dds must accept the next evaluation, which must "
            "return reference values and execute only nodes whose blob is absent.",
            "the fault is raised at the start of the chosen function",
            "5/C10"),
    "C11": ("progmc", "exploration",
            "exhaustive enumeration of ill-formed program shapes (path lists in every order and placement, call cycles, nested eval)",
            "Every ordered list of 2-3 (thorough 4) kept paths over a small segment alphabet containing a prefix pair or a near miss, under "
            "three placements; every call cycle of length 1-3 (thorough 4) with every edge kind per edge, entered at every node; dds.eval "
            "nested 1-4 levels deep behind each edge kind. Expected: the matching error code iff the program is ill-formed, an empty "
            "execution log and an unchanged store.",
            "overlap = strict segment-prefix relation; near misses must be accepted",
            "5/C11"),
    "C09": ("progmc", "model_checking",
            "explicit-state exploration of produce/read/edit/restart histories over load placements vs a program-order reference",
            "Programs with a producer of a path (data function or keep call) and a reader that loads it in the root's body, in a helper of "
            "the root, in a kept function's body (keep call and data function), in a helper of a kept function, and with two loads: all "
            "histories over {producer-variable variant} x {in-process edit, restart} x entry {produce only, read only, produce then read, "
            "read then produce, direct call of the reading data function} to depth 2-3. Values must equal the reference (latest value in "
            "program order), the reader may execute only when the value served at the path changed, read-before-produce and never-produced "
            "must be refused with a DDS error (the former before any body ran).",
            "reference load = latest kept value in program order, else what earlier evaluations left",
            "5/C09"),
    "C14": ("progmc", "exploration",
            "exhaustive enumeration of package depth x accepted prefix x number of accepted packages x import form x acceptance order",
            "For module depth 2-6, an accepted prefix at every depth (the deepest puts the sibling module on the non-accepted side), 1-40 "
            "accepted packages incl. a sibling name sharing a string prefix, three import forms and three acceptance orders: the signature "
            "of a kept node is captured for the base program and after editing a body / a tracked variable on the accepted side (must "
            "change, value must follow) and on the non-accepted side (must not change); a data function of a non-accepted package must be "
            "refused with a DDS error naming the package, with nothing run.",
            "'naming the module' = the message contains the package name",
            "5/C14"),
    "C15": ("progmc", "exploration",
            "exhaustive enumeration of stage lists x composite programs x stores with a twin-store differential oracle",
            "Composite programs (<= 3 kept nodes, also entered through a kept top-level function) x every prefix of the stage order in four "
            "spellings + four invalid lists x stores x {fresh, populated}: a run without EVAL must run nothing, write nothing, commit "
            "nothing; a run without PATH_COMMIT must leave every path; a later full evaluation must compute the same signatures, return "
            "the same values and leave the same paths as on a twin store that never saw the restricted run, executing only absent nodes.",
            "the empty stage list counts as a restricted run",
            "5/C15"),
    "C06": ("fsmc", "fault_enumeration",
            "exhaustive crash-point enumeration of the real store code over an in-memory POSIX file system (single and double crash)",
            "Each workload (first keep of str / pickled / bytes / None results, re-keep of changed code, evaluation with nested keeps and a "
            "3-segment path, cache-wrapped store, second data view, code edited after the crash) is killed before every one of its "
            "file-system primitives - each half of each write counts - and a fresh virtual process then loads the previously committed "
            "paths (old or new complete value), evaluates again (correct values, no exception), loads again and evaluates once more "
            "(nothing executes). Two workloads (thorough: all) are also killed at every primitive of the recovery evaluation.",
            "kill -9 semantics (completed system calls durable); file-system model validated against the kernel on every workload trace",
            "5/C06"),
    "C07": ("fsmc", "model_checking",
            "stateless DFS over interleavings of file-system primitives with an iterated preemption bound and exact state keys, on the real code",
            "Twelve scenarios of 2-3 virtual processes (threads with private copies of all dds module state, one baton) run the real "
            "dds.set_store / keep / eval / load against one in-memory POSIX file system; every schedule of their file-system primitives "
            "with at most 2 (thorough 3) preemptions is explored, pruned on exact state keys; every keep/load that returns must return a "
            "complete allowed value, no process may fail, and a fresh process must afterwards load every path and re-keep without "
            "executing. Every complete schedule's merged trace is replayed against a real directory (model validation).",
            "processes share only the directory; advisory locks are not modelled (reported as harness error)",
            "5/C07"),
    "C16": ("seqmc", "exploration",
            "exhaustive product of local-store configurations run as real interpreters + BFS to closure over two data views",
            "(a) internal_dir form x data_dir form over {absolute, relative, trailing slash, nested non-existing, symlinked parent at another "
            "depth} x cache_objects x {same cwd, other cwd in the second process, os.chdir inside one process}: process 1 keeps two paths "
            "(1 and 3 segments), process 2 loads both and keeps again without executing. (b) BFS to closure over {keep in view 1|2 (with a "
            "nested keep), edit, load of both paths in view 1|2} for two data directories on one internal directory against a dictionary "
            "model: blobs shared, views independent.",
            "a process in another working directory passes the absolute form of the same directories",
            "5/C16"),
    "C18": ("progmc", "exploration",
            "exhaustive enumeration of composite programs; exported graph parsed back and compared with the graph derived from the spec",
            "Every composite program (chain / fan / diamond / repeat over <= 4 kept nodes x node styles), programs with the same function under "
            "two paths, run-time-argument siblings, a shared un-kept helper, three argument-taking calls, and all load placements of C09 are "
            "evaluated without and with dds_export_graph on fresh stores: result and signatures must be equal, the export must succeed, and "
            "the parsed graph (graphviz plain format) must be acyclic, contain every kept path and every path loaded by a kept function, "
            "have exactly the solid edges 'u reaches v's function without crossing another kept function', the dashed edges of the loads, and "
            "only dotted edges whose head is a keep with parameters.",
            "weaker reading for dotted edges (style, direction, head has parameters)",
            "5/C18"),
    "C03": ("progmc", "model_checking",
            "signature tables recomputed exhaustively in differing real interpreters + history exploration + pinned corpus",
            "(A) the signature map of every (program, variant, entry) of the family is recomputed in real interpreters that differ in "
            "PYTHONHASHSEED, working directory, package directory, store kind, extra_debug (option and per call) and graph export, and "
            "compared with the base table; (B) all edit/restart histories of the C01 quick plan with the oracle 'signatures are a function "
            "of (program, variant, entry)' (a violating pair of histories is replayed together); (C) a pinned corpus of 533 committed "
            "packages + hand-written pipelines must reproduce its committed signatures byte for byte; (D) the same text as package module, "
            "__main__ script and IPython cells incl. re-definition.",
            "the corpus was pinned on this tree after its fix: commits and is read-only for the check",
            "5/C03"),
}

NOT_YET = {}


def main():
    props = [json.loads(l) for l in open(os.path.join(HERE, "properties.jsonl")) if l.strip()]
    ids = [p["id"] for p in props]
    checks = []
    for pid in ids:
        if pid not in CHECKS:
            continue
        eng, level, tech, text, note, ref = CHECKS[pid]
        checks.append({
            "property_id": pid,
            "quick_cmd": f"./check {pid} --tier quick",
            "thorough_cmd": f"./check {pid} --tier thorough",
            "evidence_file": f"/verif/evidence/{pid}.json",
            "replay_cmd_template": f"./check {pid} --replay {{path}}",
            "engine": eng,
            "level_claimed": {"category": level, "text": text, "design_ref": ref},
            "level_note": note,
            "technique": tech,
        })
    na = [{"property_id": pid, "reason": NOT_YET.get(pid, "check not built yet (work in progress); see DESIGN.md section 5")}
          for pid in ids if pid not in CHECKS]
    hooks_commits = []
    hp = os.path.join(HERE, "hooks_commits.txt")
    if os.path.exists(hp):
        hooks_commits = [l.split()[0] for l in open(hp) if l.strip() and not l.startswith("#")]
    man = {
        "version": 1,
        "setup_cmd": "true",
        "hooks": {
            "guard": "DDS_PY_VERIF",
            "enable": "no source hooks: all interception is done from outside the library (patched os/open inside the harness "
                      "process, Store wrappers through dds.set_store, generated user code); ./check exports DDS_PY_VERIF=1 anyway",
            "baseline_off_cmd": SUITE,
            "source_commits": hooks_commits,
            "add_only": True,
        },
        "engines": [
            {"name": "seqmc", "path": "vt/seqmc", "serves_properties": [p for p in ids if CHECKS.get(p, ("",))[0] == "seqmc"],
             "kind_free_text": "breadth-first / exhaustive enumeration of API operation sequences and value grammars against dictionary models, on the real objects"},
            {"name": "fsmc", "path": "vt/fsmc", "serves_properties": [p for p in ids if CHECKS.get(p, ("",))[0] == "fsmc"],
             "kind_free_text": "explicit-state exploration of file-system-operation interleavings and crash points of the real LocalFileStore code over an in-memory POSIX model validated against the kernel"},
            {"name": "progmc", "path": "vt/progmc", "serves_properties": [p for p in ids if CHECKS.get(p, ("",))[0] == "progmc"],
             "kind_free_text": "explicit-state exploration of edit/restart/evaluate histories over a generated program family, against a dds-free reference run of the same files"},
        ],
        "checks": checks,
        "not_applicable": na,
        "notes": "All checks run /venv/bin/python against /repo's working tree; see DESIGN.md.",
    }
    with open(os.path.join(HERE, "MANIFEST.json"), "w") as f:
        json.dump(man, f, indent=1)
    try:
        import jsonschema
        jsonschema.validate(man, json.load(open("/root/.vp/MANIFEST.schema.json")))
        print("MANIFEST valid;", len(checks), "checks,", len(na), "not applicable")
    except ImportError:
        print("written (not validated)")


if __name__ == "__main__":
    main()
