#!/usr/bin/env python3
"""Runs the registered quick checks against every seeded change, each in its own scratch worktree of /repo HEAD
(VERIF_REPO points the checks at it; evidence and replays go to a scratch VERIF_OUT), and records in
seeded/<id>/meta.json which checks report it. /repo itself is never touched.

usage: tools/seed_matrix.py [seed-id ...] [--jobs N] [--all-checks]
"""
import json
import os
import re
import shutil
import subprocess
import sys
import tempfile
from concurrent.futures import ThreadPoolExecutor

VERIF = "/verif"
ALSO = {  # checks besides the seed's own property that are worth running
    "C01": ["C03", "C02", "C17", "C09", "C13"], "C02": ["C03", "C13", "C01", "C06", "C12"], "C03": ["C01", "C09", "C04"], "C04": ["C06", "C15", "C07", "C08"], "C08": ["C06", "C07", "C16", "C17"], "C13": ["C01", "C02", "C05"],
    "C15": ["C04"], "C16": ["C04", "C12"], "C06": ["C07", "C04"], "C07": ["C06", "C04", "C09"], "C17": ["C08"], "C12": [], "C09": [], "C10": [], "C11": [],
    "C14": ["C01"], "C18": [], "C19": ["C08", "C17"], "C05": ["C13"],
}


def run_seed(sid, all_checks=False):
    d = os.path.join(VERIF, "seeded", sid)
    meta = json.load(open(os.path.join(d, "meta.json")))
    prop = meta["breaks_property"]
    wt = tempfile.mkdtemp(prefix=f"ddsvt_sm_{sid}_")
    os.rmdir(wt)
    out = tempfile.mkdtemp(prefix=f"ddsvt_smo_{sid}_")
    res = {}
    try:
        subprocess.run(["git", "-C", "/repo", "worktree", "add", "-q", "--detach", wt, "HEAD"], check=True)
        a = subprocess.run(["git", "-C", wt, "apply", "--whitespace=nowarn", os.path.join(d, "patch.diff")], capture_output=True, text=True)
        if a.returncode != 0:
            a = subprocess.run(["patch", "-p1", "--binary", "-s", "-d", wt, "-i", os.path.join(d, "patch.diff")], capture_output=True, text=True)
        if a.returncode != 0:
            meta["applies_to_head"] = False
            meta["detected_by"] = meta.get("detected_by") or None
            json.dump(meta, open(os.path.join(d, "meta.json"), "w"), indent=1)
            return sid, "DOES-NOT-APPLY", {}
        meta["applies_to_head"] = True
        checks = [prop] + ALSO.get(prop, [])
        if all_checks:
            checks = [f"C{i:02d}" for i in range(1, 20)]
        env = dict(os.environ, VERIF_REPO=wt, VERIF_OUT=out, PYTHONPATH=VERIF, PYTHONDONTWRITEBYTECODE="1", PYTHONHASHSEED="0")
        for c in checks:
            p = subprocess.run(["/venv/bin/python", "-m", "vt.runner", c, "--tier", "quick"], cwd=VERIF, env=env, capture_output=True, text=True, timeout=3600)
            keys = re.findall(r"^  cause=(\S+)", p.stdout, re.M)
            res[c] = {"exit": p.returncode, "cause_keys": keys[:6]}
        meta["detected_by"] = {c: r for c, r in res.items() if r["exit"] == 1} or None
        meta["checks_run"] = {c: r["exit"] for c, r in res.items()}
        meta["matrix_repo_commit"] = subprocess.run(["git", "-C", "/repo", "rev-parse", "--short", "HEAD"], capture_output=True, text=True).stdout.strip()
        json.dump(meta, open(os.path.join(d, "meta.json"), "w"), indent=1)
    finally:
        subprocess.run(["git", "-C", "/repo", "worktree", "remove", "--force", wt], capture_output=True)
        shutil.rmtree(wt, ignore_errors=True)
        shutil.rmtree(out, ignore_errors=True)
    det = [c for c, r in res.items() if r["exit"] == 1]
    err = [c for c, r in res.items() if r["exit"] not in (0, 1)]
    return sid, ("DETECTED by " + ",".join(det) if det else "MISSED") + (" HARNESS-ERROR in " + ",".join(err) if err else ""), res


def main():
    args = [a for a in sys.argv[1:] if not a.startswith("--")]
    jobs = 3
    if "--jobs" in sys.argv:
        jobs = int(sys.argv[sys.argv.index("--jobs") + 1])
        args = [a for a in args if a != str(jobs)]
    seeds = args or sorted(os.listdir(os.path.join(VERIF, "seeded")))
    seeds = [s for s in seeds if os.path.exists(os.path.join(VERIF, "seeded", s, "patch.diff"))]
    with ThreadPoolExecutor(max_workers=jobs) as ex:
        for sid, verdict, res in ex.map(lambda s: run_seed(s, "--all-checks" in sys.argv), seeds):
            print(f"{sid:10s} {verdict}", flush=True)


if __name__ == "__main__":
    main()
