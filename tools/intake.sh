#!/bin/bash
# tools/intake.sh <out dir with m1 m2 ...> <property> <id prefix e.g. C08_n>   : qualify every change, then run the matrix on the kept ones
OUT=$1; PROP=$2; PRE=$3
ids=""
for d in "$OUT"/m*; do
  [ -f "$d/patch.diff" ] || continue
  n=$(basename "$d" | tr -d m)
  id="${PRE}${n}"
  if /verif/tools/qualify_seed.sh "$d" "$id" "$PROP"; then ids="$ids $id"; fi
done
[ -n "$ids" ] && /verif/tools/seed_matrix.py $ids --jobs 2
