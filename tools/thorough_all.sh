#!/bin/bash
# runs every thorough check once, sequentially, against a snapshot of /repo's HEAD (so that seeded changes tried in /repo
# meanwhile do not disturb the sweep); prints one summary line each. The snapshot worktree is removed at the end.
cd "$(dirname "$0")/.."
SNAP=$(mktemp -d /tmp/ddsvt_sweeprepo_XXXX); rmdir "$SNAP"
git -C /repo worktree add -q --detach "$SNAP" HEAD || exit 9
trap 'git -C /repo worktree remove --force "$SNAP" 2>/dev/null; rm -rf "$SNAP"' EXIT
export VERIF_REPO="$SNAP"
echo "sweep against /repo $(git -C /repo rev-parse --short HEAD), verif $(git rev-parse --short HEAD 2>/dev/null)"
for i in ${SWEEP_ORDER:-05 12 13 14 18 19 17 16 06 11 10 09 15 08 04 01 02 03 07}; do
  s=$(date +%s); out=$(./check C$i --tier thorough 2>&1 | grep -E "cause=|tier=" | cut -c1-260 | tail -6); e=$(date +%s)
  echo "C$i $((e-s))s :: $out"
done
