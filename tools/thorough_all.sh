#!/bin/bash
# runs every thorough check once, sequentially; prints one summary line each
cd "$(dirname "$0")/.."
for i in 05 12 13 14 18 19 17 16 06 11 10 09 15 08 04 01 02 03 07; do
  s=$(date +%s); out=$(./check C$i --tier thorough 2>&1 | tail -1 | cut -c1-220); e=$(date +%s)
  echo "C$i $((e-s))s :: $out"
done
