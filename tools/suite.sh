#!/bin/bash
# runs the repository's suite (guard off) in the given tree (default /repo); prints summary; exit 0 iff 59 passed
T=${1:-/repo}
cd "$T" && env -u DDS_PY_VERIF /venv/bin/python -m pytest -q -p no:cacheprovider --timeout=900 --continue-on-collection-errors 2>&1 | tail -4 | tee /dev/stderr | grep -q "59 passed"
