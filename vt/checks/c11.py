"""C11 - ill-formed evaluations are rejected before anything runs, whatever the order.

(a) every ordered list of 2-3 (thorough: 4) kept paths over a small segment alphabet that contains a prefix pair
or a near miss, under three placements; (b) every call cycle of length 1-4 with every assignment of edge kinds,
entered at every node; (c) dds.eval nested at depth 1-4 behind every edge kind. A rejected evaluation must carry
the right error code, execute no user function and leave the store untouched.
"""
import itertools

from .. import core, pool
from ..core import Result, Violation
from ..progmc import jobs as J, spec as S
from ..progmc.world import Prog

P = "C11"
SEGS = ["a", "b", "ab", "a-"]


def segs(p):
    return tuple(x for x in p.split("/") if x)


def overlapping(paths):
    ss = [segs(p) for p in paths]   # segs drops empty segments
    return any(a != b and a == b[:len(a)] for a in ss for b in ss)


def path_lists(tier):
    allp = ["/" + "/".join(c) for n in (1, 2, 3) for c in itertools.product(SEGS, repeat=n)]
    pref = [(p, q) for p in allp for q in allp if segs(p) != segs(q) and segs(p) == segs(q)[:len(segs(p))]]
    near = [("/a", "/ab"), ("/a", "/a-"), ("/a/b", "/a/ab"), ("/a/b", "/ab"), ("/ab", "/a/b/a"), ("/a-", "/a/b"), ("/a/a", "/a/a-/b")]
    seps = ["/b", "/a-", "/ab/b", "/a/ab", "/a-/a", "/b/a/b"]
    out = []
    for p, q in pref + near:
        out.append([p, q])
        out.append([q, p])
    trip = pref if tier != "quick" else [pq for pq in pref if len(segs(pq[1])) <= 2 or pq[0] in ("/a", "/a/b", "/ab", "/a-")]
    for p, q in trip + near:
        for r in seps:
            if r in (p, q):
                continue
            for perm in itertools.permutations([p, q, r]):
                out.append(list(perm))
    if tier != "quick":
        for p, q in [pq for pq in pref if pq[0] in ("/a", "/a/b", "/ab")][:40]:
            for r1, r2 in itertools.combinations(seps, 2):
                if {r1, r2} & {p, q}:
                    continue
                for perm in itertools.permutations([p, q, r1, r2]):
                    out.append(list(perm))
    # the root path is a prefix of every other path
    for l in (["/", "/a"], ["/a", "/"], ["/", "/a/b", "/b"], ["/b", "/a/b", "/"],
              # other spellings of a prefix: empty segments do not count
              ["/a", "//a/b"], ["//a/b", "/a"], ["/a/", "/a/b"], ["/a/b//", "/a"], ["/b", "/a//b/a", "/a/b"]):
        out.append(l)
    seen, res = set(), []
    for l in out:
        if tuple(l) not in seen and len(set(l)) == len(l):
            seen.add(tuple(l))
            res.append(l)
    return res


def overlap_spec(batch, placement, bi):
    """one program with one root per path list"""
    funcs, entries = [], {}
    mods = ["lib", "main"]
    for li, paths in enumerate(batch):
        leaves = [f"L{li}_{i}" for i in range(len(paths))]
        if placement == "siblings":
            for n in leaves:
                funcs.append({"name": n, "module": "main", "params": [], "body": []})
            body = [{"k": "keep", "path": p, "fn": n, "args": []} for p, n in zip(paths, leaves)]
        elif placement == "same_fn":
            # every path of the list keeps the same function with the same constant argument: one signature, several paths
            funcs.append({"name": f"SF{li}", "module": "main", "params": [["x", None]], "body": []})
            body = [{"k": "keep", "path": p, "fn": f"SF{li}", "args": [{"lit": "1"}]} for p in paths]
        elif placement == "nested":
            for i in range(len(paths) - 1, 0, -1):
                inner = [{"k": "keep", "path": paths[i + 1], "fn": leaves[i + 1], "args": []}] if i + 1 < len(paths) else []
                funcs.append({"name": leaves[i], "module": "main", "params": [], "body": inner})
            funcs.append({"name": leaves[0], "module": "main", "params": [], "body": [{"k": "keep", "path": paths[1], "fn": leaves[1], "args": []}]})
            body = [{"k": "keep", "path": paths[0], "fn": leaves[0], "args": []}]
        else:  # helpers in another module, data functions
            body = []
            for p, n in zip(paths, leaves):
                funcs.append({"name": n, "module": "lib", "params": [], "datafn": p, "body": []})
                funcs.append({"name": "h" + n, "module": "lib", "params": [], "body": [{"k": "call", "fn": n, "form": "plain"}]})
                body.append({"k": "call", "fn": "h" + n, "form": "attr" if li % 2 else "from"})
        funcs.append({"name": f"root{li}", "module": "main", "params": [], "body": body})
        entries[f"e{li}"] = {"kind": "eval", "fn": f"root{li}"}
        if placement == "siblings" and len(paths) >= 2:
            # the first path is kept by the outermost dds.keep call itself, the others inside the kept function
            funcs.append({"name": f"top{li}", "module": "main", "params": [], "body": body[1:]})
            entries[f"t{li}"] = {"kind": "keep", "fn": f"top{li}", "path": paths[0]}
    return {"id": f"OV/{placement}/{bi}", "key": f"overlap|{placement}", "modules": mods, "vars": [], "funcs": funcs, "entries": entries, "eps": []}


EDGES = ["call", "keep", "hof", "method"]


SOFT = ["match", "case", "type", "_"]


def cycle_spec(kinds, two_modules=False, soft_names=False):
    k = len(kinds)
    funcs = []
    if soft_names:
        # functions named like soft keywords (match, case, type, _) are ordinary functions
        sp = cycle_spec(kinds, two_modules)
        ren = {f"F{i}": SOFT[i % len(SOFT)] + ("" if i < len(SOFT) else str(i)) for i in range(k)}
        import json
        txt = json.dumps(sp)
        for a, b in ren.items():
            txt = txt.replace(f'"{a}"', f'"{b}"')
        sp = json.loads(txt)
        sp["id"] += "/softnames"
        sp["key"] += "|softnames"
        return sp
    mod = lambda i: ("lib" if (two_modules and i % 2) else "main")
    for i, kind in enumerate(kinds):
        nxt = f"F{(i + 1) % k}"
        cross = mod(i) != mod((i + 1) % k)
        if kind == "call":
            body = [{"k": "call", "fn": nxt, "form": "attr" if cross else "plain"}]
        elif kind == "keep":
            body = [{"k": "keep", "path": f"/cy/n{i}", "fn": nxt, "args": [], "form": "from"}]
        elif kind == "hof":
            body = [{"k": "hof", "fn": nxt, "form": "attr" if cross else "from"}]
        else:
            funcs.append({"name": f"C{i}", "module": mod(i), "cls": f"C{i}", "params": [], "body": [{"k": "call", "fn": nxt, "form": "plain"}], "init": []})
            body = [{"k": "method", "cls": f"C{i}", "form": "plain"}]
        funcs.append({"name": f"F{i}", "module": mod(i), "params": [], "body": body})
    entries = {f"e{i}": {"kind": "eval", "fn": f"F{i}"} for i in range(k)}
    entries["k0"] = {"kind": "keep", "fn": "F0", "path": "/cy/top"}
    return {"id": f"CY/{'-'.join(kinds)}{'/2mod' if two_modules else ''}", "key": f"cycle|len={k}|{'+'.join(sorted(set(kinds)))}",
            "modules": ["lib", "main"] if two_modules else ["main"], "vars": [], "funcs": funcs, "entries": entries, "eps": []}


def lazy_specs():
    """the offending call sits in an accepted module that only a function-level 'import pkg.mod' reaches, and that nobody has
    imported yet when the evaluation is analysed: [(spec, expected code, detail)] - one entry per program (one fresh process each)"""
    out = []
    for back in ("call", "keep", "hof"):
        for entry in ("eval", "keep"):
            if back == "call":
                hb = [{"k": "call", "fn": "F0", "form": "from"}]
            elif back == "keep":
                hb = [{"k": "keep", "path": "/cy/h", "fn": "F0", "args": [], "form": "from"}]
            else:
                hb = [{"k": "hof", "fn": "F0"}]
            funcs = [{"name": "Hp", "module": "H:hmod", "params": [], "body": hb},
                     {"name": "F0", "module": "main", "params": [], "body": [{"k": "call", "fn": "Hp", "form": "local_module_import"}]}]
            ent = {"kind": "eval", "fn": "F0"} if entry == "eval" else {"kind": "keep", "fn": "F0", "path": "/cy/top"}
            out.append(({"id": f"LZ/cycle/{back}/{entry}", "key": f"lazy_module|cycle|{back}", "modules": ["main"], "vars": [], "funcs": funcs,
                         "entries": {"e": ent}, "eps": []}, "CIRCULAR_CALL", f"cycle main.F0 -> (import inside the body) helper.Hp -{back}-> main.F0"))
    for entry in ("eval", "keep"):
        funcs = [{"name": "inner", "module": "main", "params": [], "body": []},
                 {"name": "Hp", "module": "H:hmod", "params": [], "body": [{"k": "eval", "fn": "inner"}]},
                 {"name": "root", "module": "main", "params": [], "body": [{"k": "call", "fn": "Hp", "form": "local_module_import"}]}]
        ent = {"kind": "eval", "fn": "root"} if entry == "eval" else {"kind": "keep", "fn": "root", "path": "/ne/top"}
        out.append(({"id": f"LZ/nested_eval/{entry}", "key": "lazy_module|nested_eval", "modules": ["main"], "vars": [], "funcs": funcs,
                     "entries": {"e": ent}, "eps": []}, "EVAL_IN_EVAL", "dds.eval inside a helper module imported in the body of the root function"))
    return out


def nested_eval_spec(depth, kind):
    funcs = [{"name": "inner", "module": "main", "params": [], "body": []}]
    prev_item = {"k": "eval", "fn": "inner"}
    for d in range(depth, 0, -1):
        funcs.append({"name": f"G{d}", "module": "main", "params": [], "body": [prev_item]})
        if kind == "call":
            prev_item = {"k": "call", "fn": f"G{d}", "form": "plain"}
        elif kind == "keep":
            prev_item = {"k": "keep", "path": f"/ne/g{d}", "fn": f"G{d}", "args": []}
        elif kind == "hof":
            prev_item = {"k": "hof", "fn": f"G{d}"}
        else:
            funcs.append({"name": f"C{d}", "module": "main", "cls": f"C{d}", "params": [], "body": [{"k": "call", "fn": f"G{d}", "form": "plain"}], "init": []})
            prev_item = {"k": "method", "cls": f"C{d}", "form": "plain"}
    funcs.append({"name": "root", "module": "main", "params": [], "body": [prev_item]})
    return {"id": f"NE/{depth}/{kind}", "key": f"nested_eval|{kind}", "modules": ["main"], "vars": [], "funcs": funcs,
            "entries": {"e": {"kind": "eval", "fn": "root"}, "k": {"kind": "keep", "fn": "root", "path": "/ne/top"}}, "eps": []}


def run_spec(world, spec, expect, store_kind="memory"):
    """expect: entry -> (code or None). Returns problems, n."""
    probs = []
    prog = Prog(world, spec, store_kind)
    n = 0
    try:
        prog.goto({}, "restart")
        for entry, (want, detail) in expect.items():
            if spec["id"].startswith("OV/"):
                # every root gets an empty store of its own (different roots keep conflicting path sets on purpose)
                import shutil
                prog.persist = None
                shutil.rmtree(prog.store_dir, ignore_errors=True)
                prog.open_store()
            before = prog.store_state()
            real, ref = prog.run(entry)
            n += 1
            after = prog.store_state()

            def bad(tag, what):
                probs.append((f"C11|{tag}|{spec['key']}", f"[{spec['id']}] {detail}: {what}", {"spec": spec, "entry": entry, "want": want, "detail": detail, "store": store_kind}))
            if want is None:
                if real.status != "ok":
                    bad(f"wrongly_rejected|{real.exc}[{real.code}]", f"well-formed evaluation raised {real.exc} {real.code} {str(real.excobj)[:100]}")
                elif real.value != ref.value:
                    bad("wrong_value", f"returned {real.value!r}, plain execution {ref.value!r}")
            else:
                if real.status == "ok":
                    bad("accepted", f"evaluation was accepted and returned {str(real.value)[:60]!r} (expected {want})")
                elif real.status != "dds" or real.code != want:
                    bad(f"wrong_error|{real.exc}[{real.code}]", f"raised {real.exc} code {real.code} ({str(real.excobj)[:80]}) instead of DDSException {want}")
                if real.status != "ok":
                    if real.log:
                        bad("ran_user_code", f"user functions {real.log[:4]} ran before the rejection")
                    if after != before:
                        bad("store_touched", "the rejected evaluation changed blobs or paths")
            if real.status != "ok" and want is None:
                pass
            if after != before and real.status == "ok":
                # keep the store small and independent between roots
                pass
    finally:
        prog.cleanup()
    return probs, n


def _job(items):
    w = J.world()
    out = []
    for spec, expect, store in items:
        try:
            out.append(run_spec(w, spec, expect, store))
        except BaseException as e:  # noqa
            import traceback
            raise core.HarnessError(f"{spec['id']}: {type(e).__name__} {e}\n{traceback.format_exc()[-1500:]}")
    return out


def plan(tier):
    items = []
    pls = path_lists(tier)
    B = 40
    for placement in ("siblings", "nested", "helpers", "same_fn"):
        for bi in range(0, len(pls), B):
            batch = pls[bi:bi + B]
            if placement == "nested":
                batch = [l for l in batch if len(l) >= 2]
            spec = overlap_spec(batch, placement, bi // B)
            expect = {f"e{li}": (("OVERLAPPING_PATH" if overlapping(l) else None), f"paths {l} ({placement})") for li, l in enumerate(batch)}
            if placement == "siblings":
                expect.update({f"t{li}": (("OVERLAPPING_PATH" if overlapping(l) else None), f"top-level keep of {l[0]} over a function that keeps {l[1:]}")
                               for li, l in enumerate(batch) if len(l) >= 2})
            items.append((spec, expect, "memory" if (bi // B) % 3 else "local"))
    n_ov = len(items)
    maxlen = 3 if tier == "quick" else 4
    for k in range(1, maxlen + 1):
        for kinds in itertools.product(EDGES, repeat=k):
            if k == 1 and kinds[0] == "method":
                pass
            for two in ((False, True) if k >= 2 and all(x in ("call", "hof") for x in kinds) else (False,)):
                spec = cycle_spec(list(kinds), two)
                expect = {e: ("CIRCULAR_CALL", f"cycle {'-'.join(kinds)} entered at {e}") for e in spec["entries"]}
                items.append((spec, expect, "memory"))
                if not two and k >= 2 and "hof" in kinds and k <= 3:
                    spec = cycle_spec(list(kinds), False, soft_names=True)
                    expect = {e: ("CIRCULAR_CALL", f"cycle {'-'.join(kinds)} of functions named match/case/type/_ entered at {e}") for e in spec["entries"]}
                    items.append((spec, expect, "memory"))
    for d in (1, 2, 3, 4):
        for kind in EDGES:
            spec = nested_eval_spec(d, kind)
            expect = {e: ("EVAL_IN_EVAL", f"dds.eval nested {d} level(s) below the root behind {kind} edges, entry {e}") for e in spec["entries"]}
            items.append((spec, expect, "memory"))
    for spec, code, detail in lazy_specs():
        items.append((spec, {"e": (code, detail)}, "memory"))
    return items, len(pls)


def run(tier, seed):
    res = Result(P, "exploration")
    items, npl = plan(tier)
    outs = pool.pmap(_job, items, chunk=2)
    n = 0
    for probs, k in outs:
        n += k
        for key, what, case in probs:
            res.violations.append(Violation(P, key, what, case))
    res.violations.sort(key=lambda v: len(str(v.replay["spec"])))
    ncy = sum(1 for it in items if it[0]["id"].startswith("CY"))
    res.coverage = dict(evaluations=n, distinct_nontrivial=npl * 3 + ncy + 16, exhaustive=True, path_lists=npl, cycle_programs=ncy, nested_eval_programs=16,
                        rule=f"(a) ordered lists of 2-{3 if tier == 'quick' else 4} kept paths over segments {SEGS} (depth <= 3) containing a prefix pair or a near miss, "
                             "every permutation, x placements {siblings of one root, nested chain, data functions behind helpers of another module}; "
                             f"(b) call cycles of length 1-{3 if tier == 'quick' else 4} x edge kinds {EDGES} per edge x entry at each node (+ top-level keep), also split over two modules; "
                             "(c) dds.eval nested 1-4 levels deep behind each edge kind; distinct_nontrivial = number of distinct programs/roots",
                        samples=[items[0][1]["e0"][1], items[-1][1]["e"][1], next(it[1]["e0"][1] for it in items if it[0]["id"].startswith("CY/keep-hof"))])
    res.assumptions = ["a near miss (/a vs /ab) must be accepted; overlap = strict segment-prefix relation"]
    return res


def replay(case):
    w = J.world()
    probs, _ = run_spec(w, case["spec"], {case["entry"]: (case["want"], case["detail"])}, case["store"])
    return [Violation(P, k, what, case) for k, what, _ in probs]
