"""C09 - dds.load always sees the latest kept value and invalidates its readers.

Program family: a producer of /l/p (data function or keep call) and a reader that loads it, at every placement
of the load, with the producer evaluated before the reader in the same evaluation, after it, in an earlier
evaluation or never; histories of producer edits on fresh and populated stores.
"""
from .. import core, pool
from ..core import Result, Violation
from ..progmc import driver, jobs as J

P = "C09"
PLACEMENTS = ["root_body", "root_helper", "kept_body", "kept_helper", "two_loads", "kept_datafn", "same_path_twice", "kept_body_local_import", "kept_body_thread",
              "loaded_value_to_inner_keep", "kept_body_other_spelling", "method_on_loaded", "method_with_path_like_arg", "loaded_value_through_map"]
PRODUCERS = ["datafn", "keepcall", "keepcall_shared_fn", "datafn_in_keep_args"]


def make_spec(placement, producer):
    funcs = [{"name": "Pf", "module": "main", "params": [], "body": [{"k": "read", "var": "VP"}]},
             {"name": "Qf", "module": "main", "params": [], "datafn": "/l/q", "body": [{"k": "read", "var": "VQ"}]}]
    pre = []
    if producer == "datafn":
        funcs[0]["datafn"] = "/l/p"
        prod = {"k": "call", "fn": "Pf", "form": "plain"}
    elif producer == "keepcall_shared_fn":
        # the producing function is also kept under another path, with another literal argument, just before
        funcs[0]["params"] = [["a", None]]
        pre = [{"k": "keep", "path": "/l/p0", "fn": "Pf", "args": [{"lit": "0"}]}]
        prod = {"k": "keep", "path": "/l/p", "fn": "Pf", "args": [{"lit": "5"}]}
    elif producer == "datafn_in_keep_args":
        # the producing data function is called inside the argument list of another kept call
        funcs[0]["datafn"] = "/l/p"
        funcs.append({"name": "Comb", "module": "main", "params": [["x", None]], "body": []})
        prod = {"k": "keep", "path": "/l/r", "fn": "Comb", "args": [{"inline": "Pf"}]}
    else:
        prod = {"k": "keep", "path": "/l/p", "fn": "Pf", "args": []}
    prodq = {"k": "call", "fn": "Qf", "form": "plain"}
    load = {"k": "load", "path": "/l/p"}
    two = placement == "two_loads"
    if placement == "root_body":
        reader_items = [load]
    elif placement == "root_helper":
        funcs.append({"name": "hr", "module": "main", "params": [], "body": [load]})
        reader_items = [{"k": "call", "fn": "hr", "form": "plain"}]
    elif placement in ("kept_body_local_import", "kept_body_thread"):
        # the reader imports dds inside its own body / issues the load from a worker thread it starts and joins
        body = ([{"k": "raw", "text": "import dds"}, load] if placement == "kept_body_local_import" else [dict(load, ctx="thread")])
        funcs.append({"name": "K", "module": "main", "params": [], "body": body})
        reader_items = [{"k": "keep", "path": "/l/k", "fn": "K", "args": []}]
    elif placement in ("method_on_loaded", "method_with_path_like_arg"):
        # a method is called on the loaded value where it is loaded: dds.load(p).upper() / .strip('/zzz')
        meth = "upper()" if placement == "method_on_loaded" else "strip('/zzz')"
        funcs.append({"name": "K", "module": "main", "params": [], "body": [dict(load, method=meth)]})
        reader_items = [{"k": "keep", "path": "/l/k", "fn": "K", "args": []}]
    elif placement == "loaded_value_through_map":
        # the loaded value reaches a keep through a function that is only named: list(map(HK, [loaded]))
        funcs.append({"name": "G", "module": "main", "params": [["x", None]], "body": []})
        funcs.append({"name": "HK", "module": "main", "params": [["v", None]], "body": [{"k": "keep", "path": "/l/hk", "fn": "G", "args": [{"param": "v"}]}]})
        funcs.append({"name": "K", "module": "main", "params": [], "body": [load, {"k": "raw", "text": "_r = list(map(HK, [_0]))[0]"}, {"k": "const", "expr": "_r"}]})
        reader_items = [{"k": "keep", "path": "/l/k", "fn": "K", "args": []}]
    elif placement == "kept_body_other_spelling":
        # the reader spells the path with empty segments ('/l//p/'): it is the same path
        funcs.append({"name": "K", "module": "main", "params": [], "body": [dict(load, path="/l//p/")]})
        reader_items = [{"k": "keep", "path": "/l/k", "fn": "K", "args": []}]
    elif placement in ("kept_body", "two_loads", "same_path_twice"):
        body = [load] + ([{"k": "load", "path": "/l/q"}] if two else []) + ([dict(load)] if placement == "same_path_twice" else [])
        funcs.append({"name": "K", "module": "main", "params": [], "body": body})
        reader_items = [{"k": "keep", "path": "/l/k", "fn": "K", "args": []}]
    elif placement == "loaded_value_to_inner_keep":
        # the loaded value is handed, as a run-time argument, to a keep written in the same body
        funcs.append({"name": "G", "module": "main", "params": [["x", None]], "body": []})
        funcs.append({"name": "K", "module": "main", "params": [], "body": [load, {"k": "keep", "path": "/l/g", "fn": "G", "args": [{"local": 0}]}]})
        reader_items = [{"k": "keep", "path": "/l/k", "fn": "K", "args": []}]
    elif placement == "kept_datafn":
        funcs.append({"name": "K", "module": "main", "params": [], "datafn": "/l/k", "body": [load]})
        reader_items = [{"k": "call", "fn": "K", "form": "plain"}]
    else:
        funcs.append({"name": "hk", "module": "main", "params": [], "body": [load]})
        funcs.append({"name": "K", "module": "main", "params": [], "body": [{"k": "call", "fn": "hk", "form": "plain"}]})
        reader_items = [{"k": "keep", "path": "/l/k", "fn": "K", "args": []}]
    prods = pre + [prod] + ([prodq] if two else [])
    skipped = [dict(x, ctx="if_false") for x in prods]
    funcs += [
        {"name": "root_p", "module": "main", "params": [], "body": list(prods)},
        {"name": "root_r", "module": "main", "params": [], "body": list(reader_items)},
        {"name": "root_both", "module": "main", "params": [], "body": list(prods) + list(reader_items)},
        {"name": "root_rev", "module": "main", "params": [], "body": list(reader_items) + list(prods)},
        {"name": "root_skip", "module": "main", "params": [], "body": skipped + list(reader_items)},
    ]
    entries = {"produce": {"kind": "eval", "fn": "root_p"}, "read": {"kind": "eval", "fn": "root_r"},
               "both": {"kind": "eval", "fn": "root_both"}, "reversed": {"kind": "eval", "fn": "root_rev"},
               "skipped_producer": {"kind": "eval", "fn": "root_skip"}}
    # the reading pipeline is itself kept, at the top level, under the very path it reads: the path is produced when it returns
    entries["self_reference"] = {"kind": "keep", "fn": "root_r", "path": "/l/p"}
    if placement == "kept_datafn":
        entries["read_direct"] = {"kind": "call", "fn": "K"}
    vars_ = [{"name": "VP", "module": "main", "values": ["1", "2"]}, {"name": "VQ", "module": "main", "values": ["1", "2"]}]
    eps = [{"id": "VP", "kind": "producer_var", "n": 2}] + ([{"id": "VQ", "kind": "producer_var", "n": 2}] if two else [])
    return {"id": f"L/{placement}/{producer}", "key": f"load={placement}|producer={producer}", "modules": ["main"], "vars": vars_, "funcs": funcs,
            "entries": entries, "eps": eps, "expect_error": {"reversed": "dds", "self_reference": "dds"}, "may_reject": ["skipped_producer"]}


def plan(tier):
    items = []
    for pl in PLACEMENTS:
        for pr in PRODUCERS:
            sp = make_spec(pl, pr)
            ents = list(sp["entries"])
            for st in (("memory", "local") if tier == "quick" else ("memory", "local", "local_cache2")):
                d = 2 if (tier == "quick" or len(sp["eps"]) > 1) else 3
                if tier == "quick" and st == "local" and pl not in ("kept_body", "root_body"):
                    continue
                items.append((sp, [e for e in ents if e != "skipped_producer"], st, d, {P}, (False, ("inproc", "restart"))))
            if len(sp["eps"]) == 1 and pl in ("kept_body", "root_body", "kept_datafn"):
                # two long-lived processes with object caches alternate: one produces, the other reads what is now at the path
                items.append((sp, ["produce", "read", "both"], "local_cache2", 3 if tier != "quick" or pl == "kept_body" else 2, {P}, (False, ("inproc", "switch"))))
            if len(sp["eps"]) == 1:
                # depth 3 over the entries that matter for invalidation: produce, read, both
                items.append((sp, ["produce", "read", "both"], "memory", 3, {P}, (False, ("inproc",))))

    return items


def run(tier, seed):
    items = plan(tier)
    res, outs = driver.run_plan(P, "model_checking", items, extra={
        "rule": "load placement {root body, helper of root, kept function body (keep call / data function), helper of a kept function, reader with two "
                "loads} x producer {data function, keep call} x all histories of (producer variable variant, in-process | restart, entry in "
                "{produce only, read only, produce then read, read then produce}) up to depth 2-3: covers producer in the same evaluation before / "
                "after the load, in an earlier evaluation, never, edits of the producer, fresh and populated stores"})
    res.assumptions = ["reference load = latest value kept at the path in program order, else what earlier evaluations of the history left there"]
    return res


def replay(case):
    return driver.replay(P, case)
