"""C15 - restricting the stages makes an evaluation a side-effect-free dry run.

Composite programs x stage lists (every prefix of the stage order, spelled as values / names / mixed case /
enum members, plus invalid lists) x stores x {fresh, populated by an earlier variant}: the restricted run is
compared with the store before it, and a following full evaluation with the same full evaluation on a twin
store that never saw the restricted run.
"""
from .. import core, pool
from ..core import Result, Violation
from ..progmc import jobs as J, spec as S
from ..progmc.world import Prog

P = "C15"
ORDER = ["analysis", "store_inspect", "eval", "store_commit", "path_commit"]


def spell(prefix_len, style):
    from dds.structures import ProcessingStage
    names = ORDER[:prefix_len]
    if style == "lower":
        return list(names)
    if style == "upper":
        return [n.upper() for n in names]
    if style == "mixed":
        return [n.title() if i % 2 else n.upper() for i, n in enumerate(names)]
    if style == "enum":
        return [ProcessingStage[n.upper()] for n in names]
    raise ValueError(style)


INVALID = {"wrong_order": ["eval", "analysis"], "unknown": ["analysis", "nonsense"], "skipped": ["analysis", "eval"], "not_a_stage": ["analysis", 3]}


def one(world, spec, store_kind, populated, plen, style, invalid=None, entry="eval_root"):
    probs = []
    vs = list(S.variants(spec))
    v0, v1 = vs[0], vs[-1]
    kept = dict(S.kept_nodes(spec))
    label = f"stages={INVALID[invalid] if invalid else ORDER[:plen]}/{style}"
    case = {"spec": spec, "store": store_kind, "populated": populated, "plen": plen, "style": style, "invalid": invalid, "entry": entry}

    def bad(tag, what):
        probs.append((f"C15|{tag}|{'invalid:' + invalid if invalid else 'prefix=' + str(plen)}", f"[{spec['id']} {entry} {store_kind} {'populated' if populated else 'fresh'}] {label}: {what}", case))

    twin = Prog(world, spec, store_kind)
    test = Prog(world, spec, store_kind)
    try:
        for p in (twin, test):
            p.goto(v0, "restart")
            if populated:
                p.run(entry)
            p.goto(v1, "inproc")
        t_real, t_ref = twin.run(entry)
        t_state = twin.store_state()
        if t_real.status != "ok":
            return probs
        stages = INVALID[invalid] if invalid else spell(plen, style)
        if not invalid and 3 <= plen <= 4:
            # the same restricted run once before: its blobs are in the store, its paths must still not be committed by the next one
            path_before = test.store_state()[1]
            r0, _ = test.run(entry, opts={"dds_stages": stages})
            if r0.status == "ok" and test.store_state()[1] != path_before:
                bad("committed_paths", "the first of two restricted runs changed paths although path_commit is not in the list")
        before = test.store_state()
        r, ref = test.run(entry, opts={"dds_stages": stages})
        after = test.store_state()
        if invalid:
            if r.status != "dds":
                bad("invalid_accepted", f"invalid stage list gave {r.short()!r}")
            if r.log or after != before:
                bad("invalid_side_effects", f"log {r.log} store changed {after != before}")
        else:
            has_eval = plen >= 3
            has_commit = plen >= 5
            if r.status != "ok":
                bad(f"raises|{r.exc}[{r.code}]", f"restricted evaluation raised {r.exc} {r.code} {str(r.excobj)[:100]}")
                return probs
            if not has_eval:
                if r.log:
                    bad("ran_user_code", f"user functions {r.log[:4]} ran")
                if after[0] != before[0]:
                    bad("wrote_blobs", f"{len(set(after[0]) - set(before[0]))} blob(s) written")
                if after[1] != before[1]:
                    bad("committed_paths", "paths changed")
                if r.value is not None:
                    bad("returned_value", f"returned {r.value!r}")
            else:
                if r.value != ref.value:
                    bad("wrong_value", f"returned {r.value!r}, plain execution {ref.value!r}")
                if not has_commit and after[1] != before[1]:
                    bad("committed_paths", f"paths changed although path_commit is not in the list: {sorted(set(after[1].items()) ^ set(before[1].items()))[:2]}")
                if has_commit and after[1] != t_state[1]:
                    bad("paths_differ_from_full", "full stage list does not commit like a plain evaluation")
                for n in set(r.log) & set(kept.values()):
                    ps = [p for p, fn in kept.items() if fn == n]
                    if not any(t_real.sigs.get(p) in after[0] for p in ps):
                        bad("blob_missing", f"{n} executed but no blob under its signature")
        # ---- the following full evaluation behaves as if the restricted run had not happened
        had = set(test.store_state()[0])
        f, fref = test.run(entry)
        if f.short() != t_real.short():
            bad("later_full_value", f"later full evaluation gave {f.short()!r}, twin {t_real.short()!r}")
        if f.sigs != t_real.sigs:
            bad("later_full_signatures", f"later full evaluation computed other signatures than the twin")
        if test.store_state()[1] != t_state[1]:
            bad("later_full_paths", f"paths after the later full evaluation differ from the twin: {sorted(set(test.store_state()[1].items()) ^ set(t_state[1].items()))[:2]}")
        ran = set(f.log) & set(kept.values())
        need = {fn for p, fn in kept.items() if t_real.sigs.get(p) is not None and t_real.sigs[p] not in had}
        if not ran <= need:
            bad("later_full_recomputed", f"later full evaluation re-executed {sorted(ran - need)} whose blobs were present")
    finally:
        twin.cleanup()
        test.cleanup()
    return probs


def programs(tier):
    from ..progmc import family as F
    out = []
    for sp in F.composites():
        n = len([f for f in sp["funcs"] if f["name"].startswith("N")])
        if n > 3:
            continue
        if tier == "quick" and n == 3 and not sp["id"].startswith(("C/chain/datafn-keep0", "C/fan/keep0-datafn-keeprt", "C/chain/keeprt-keeplit", "C/repeat/datafn")):
            continue
        sp = dict(sp, eps=sp["eps"][-1:])  # v0 -> v1 edits the deepest node's variable
        sp["entries"] = dict(sp["entries"])
        first = sp["funcs"][0]
        if first.get("datafn"):
            sp["entries"]["top_n0"] = {"kind": "eval", "fn": "N0"}       # dds.eval of a data function: the evaluated function is itself kept
        out.append(sp)
        if n == 2 and sp["id"].startswith("C/chain/") and not sp["id"].endswith("/bare"):
            # the same pipeline with every tracked call made from a worker thread that the calling function starts and joins
            import copy
            th = copy.deepcopy(sp)
            for f in th["funcs"]:
                for it in f["body"]:
                    if it["k"] in ("keep", "call"):
                        it["ctx"] = "thread"
            th["id"] += "/thread"
            out.append(th)
    return out


def cases(tier):
    out = []
    stores = ["memory", "local"] if tier == "quick" else ["memory", "local", "local_cache2"]
    for sp in programs(tier):
        for st in stores:
            for pop in (False, True):
                for plen in range(0, 6):
                    for style in (("lower", "upper", "mixed", "enum") if (tier != "quick" or (st == "memory" and not pop)) else ("lower",)):
                        out.append((sp, st, pop, plen, style, None, "eval_root"))
                        if "top_n0" in sp["entries"] and style == "lower":
                            out.append((sp, st, pop, plen, style, None, "top_n0"))
                if st == "memory":
                    for inv in INVALID:
                        out.append((sp, st, pop, 0, "lower", inv, "eval_root"))
    return out


def _job(items):
    w = J.world()
    out = []
    for sp, st, pop, plen, style, inv, entry in items:
        try:
            out.append(one(w, sp, st, pop, plen, style, inv, entry))
        except BaseException as e:  # noqa
            import traceback
            raise core.HarnessError(f"{sp['id']} {st} {plen} {style} {inv}: {type(e).__name__} {e}\n{traceback.format_exc()[-1500:]}")
    return out


def run(tier, seed):
    core.ensure_repo_dds()
    res = Result(P, "exploration")
    cs = cases(tier)
    outs = pool.pmap(_job, cs)
    for probs in outs:
        for key, what, case in probs:
            res.violations.append(Violation(P, key, what, case))
    res.violations.sort(key=lambda v: len(str(v.replay["spec"])))
    res.coverage = dict(evaluations=len(cs) * 4, distinct_nontrivial=len({(c[0]["id"], c[3], c[5]) for c in cs}), exhaustive=True,
                        programs=len({c[0]["id"] for c in cs}), cases=len(cs),
                        rule="composite programs (<= 3 kept nodes) x stage lists {every prefix of analysis, store_inspect, eval, store_commit, path_commit; "
                             "spelled lower / upper / mixed case / enum members; 4 invalid lists} x stores x {fresh store, store populated by the previous variant}; "
                             "each case = restricted run + later full run compared with a twin store; distinct_nontrivial = distinct (program, stage list)",
                        samples=[{"program": cs[0][0]["id"], "store": cs[0][1], "populated": cs[0][2], "stages": ORDER[:cs[0][3]], "style": cs[0][4]},
                                 {"program": cs[-1][0]["id"], "store": cs[-1][1], "populated": cs[-1][2], "invalid": cs[-1][5]}])
    res.assumptions = ["the empty list counts as a restricted run (no stage requested)"]
    return res


def replay(case):
    w = J.world()
    probs = one(w, case["spec"], case["store"], case["populated"], case["plen"], case["style"], case["invalid"], case.get("entry", "eval_root"))
    return [Violation(P, k, what, case) for k, what, _ in probs]
