"""C10 - a failing user function is never cached and leaves dds and the store clean.

Fault enumeration: every composite program (<= 3 kept nodes) x every function as the failing one x exception
classes x follow-up evaluations x stores. The fault is armed through a module dds does not track.
"""
from .. import core, pool
from ..core import Result, Violation
from ..progmc import jobs as J, spec as S
from ..progmc.world import Prog

P = "C10"


class UserKeyError(KeyError):
    pass


class UserBase(BaseException):
    pass


class StrRaises(BaseException):
    """an exception whose text cannot be produced (e.g. it is fetched from a remote service that is down)"""

    def __str__(self):
        raise ConnectionError("cannot fetch the message")

    __repr__ = BaseException.__repr__


class Falsy(Exception):
    """an exception instance that is falsy (it carries an empty list of problems)"""

    def __len__(self):
        return 0


def _s(e):
    try:
        return str(e)[:80]
    except BaseException:  # noqa
        return "<str() raises>"


EXCS = {"ValueError": lambda: ValueError("boom"), "UserKeyError": lambda: UserKeyError("k"), "KeyboardInterrupt": lambda: KeyboardInterrupt(),
        "SystemExit": lambda: SystemExit(3), "UserBase": lambda: UserBase("b"), "GeneratorExit": lambda: GeneratorExit(),
        "StrRaises": lambda: StrRaises(), "KeyError": lambda: KeyError("missing"), "Falsy": lambda: Falsy(),
        # the library's own exception class (public, derived from BaseException) raised by user code
        "DDSException": lambda: __import__("dds").structures.DDSException("raised by the user's function")}


def reach(spec, fname, seen=None):
    """functions statically reachable from fname (including itself)"""
    seen = seen if seen is not None else set()
    if fname in seen:
        return seen
    seen.add(fname)
    f = S._fn(spec, fname)
    for it in f.get("body", []):
        callee = it.get("fn") or it.get("cls")
        if it["k"] in ("call", "keep", "hof", "method") and callee:
            reach(spec, callee, seen)
    return seen


def node_sigs(world, spec, variant, entry, store_kind):
    """path -> signature from a disarmed run on a twin store; fn name by path"""
    p = Prog(world, spec, store_kind)
    try:
        p.goto(variant, "restart")
        real, ref = p.run(entry)
        return dict(real.sigs), real.short(), ref.short()
    finally:
        p.cleanup()


def one_case(world, spec, entry, store_kind, failing, excname, follow):
    probs = []
    variant = S.v0(spec)
    sigs, twin_real, twin_ref = node_sigs(world, spec, variant, entry, store_kind)
    if twin_real[0] != "ok":
        return probs, 0  # the pipeline itself is not evaluable: not this property's business
    path_fn = dict(S.kept_nodes(spec))
    exc = EXCS[excname]()
    prog = Prog(world, spec, store_kind)
    key = f"{excname}|fail={'root' if failing == 'root' else 'kept_node'}"

    def bad(tag, what):
        probs.append((f"C10|{tag}|{key}", f"[{spec['id']} {store_kind}] {failing} raises {excname}: {what}",
                      {"spec": spec, "entry": entry, "store": store_kind, "failing": failing, "exc": excname, "follow": follow}))

    try:
        prog.goto(variant, "restart")
        before = prog.store_state()
        real, ref = prog.run(entry, fault=(failing, exc))
        if ref.status != "exc":
            return probs, 1  # the failing function is not reached by this entry
        if real.status == "ok":
            bad("swallowed", f"dds returned {real.value!r} although the user function raised")
        elif real.excobj is not exc:
            bad("exception_replaced", f"dds raised {type(real.excobj).__name__}: {_s(real.excobj)} instead of the user's exception object")
        after = prog.store_state()
        new_blobs = set(after[0]) - set(before[0])
        # nodes whose evaluation contains the failing function cannot have completed
        tainted = {p for p, fn in path_fn.items() if failing in reach(spec, fn)}
        for p in tainted:
            if sigs.get(p) in new_blobs:
                bad("cached_failed_node", f"a blob was stored under the signature of {p} ({path_fn[p]}), which did not complete")
        if after[1] != before[1]:
            bad("paths_committed", f"paths changed by the failed evaluation: {sorted(set(after[1].items()) ^ set(before[1].items()))[:3]}")
        unknown = new_blobs - set(sigs.values())
        if unknown:
            bad("unknown_blob", f"blobs {sorted(unknown)[:2]} stored that no node of the pipeline owns")
        # ---- follow-up evaluation in the same process
        import dds._api as api
        if follow == "same_disarmed":
            r2, ref2 = prog.run(entry)
            if r2.short() != ref2.short():
                bad("followup_wrong", f"next evaluation gave {r2.short()!r}, plain execution {ref2.short()!r}")
            else:
                had = set(after[0])
                should_run = {fn for p, fn in path_fn.items() if p in sigs and sigs[p] not in had}
                ran = {n for n in r2.log if n in set(path_fn.values())}
                reachable = reach(spec, spec["entries"][entry]["fn"])
                if not ran <= should_run:
                    bad("followup_recomputed", f"next evaluation re-executed {sorted(ran - should_run)} whose blobs were stored")
                # the repaired evaluation commits its paths like an evaluation that never failed
                now = prog.store_state()[1]
                missing = {p: k for p, k in r2.sigs.items() if now.get(p) != k} if store_kind != "dbfs" else {}
                if missing or (r2.sigs != sigs and entry in ("eval_root",)):
                    bad("followup_paths_not_committed", f"after the successful retry the paths {sorted(missing) or 'signatures'} are not committed to what the evaluation computed")
        elif follow == "same_armed":
            exc2 = EXCS[excname]()
            r2, ref2 = prog.run(entry, fault=(failing, exc2))
            if r2.excobj is not exc2:
                bad("followup_armed", f"second failing evaluation gave {r2.short()!r}")
            if prog.store_state()[1] != before[1]:
                bad("paths_committed", "paths changed by the second failed evaluation")
        elif follow == "other_pipeline":
            other = [e for e in spec["entries"] if e != entry]
            if other:
                r2, ref2 = prog.run(other[0])
                if r2.short() != ref2.short():
                    bad("followup_wrong", f"evaluation of another pipeline gave {r2.short()!r}, plain execution {ref2.short()!r}")
        if api._eval_ctx is not None:
            bad("context_leaked", "dds still believes an evaluation is running")
    finally:
        prog.cleanup()
    return probs, 1


def programs(tier):
    from ..progmc import family as F
    out = []
    for sp in F.composites():
        n = len([f for f in sp["funcs"] if f["name"].startswith("N")])
        if n > (2 if tier == "quick" else 3) and not (tier == "quick" and n == 3 and sp["id"].startswith(("C/fan/datafn-keep0", "C/chain/keep0-datafn", "C/fan/keeprt"))):
            continue
        sp = dict(sp)
        sp["entries"] = dict(sp["entries"])
        first = sp["funcs"][0]
        # a second pipeline of the same program: the first node on its own
        if first.get("datafn"):
            sp["entries"]["top_n0"] = {"kind": "call", "fn": "N0"}
        elif not first.get("params"):
            sp["entries"]["top_n0"] = {"kind": "keep", "fn": "N0", "path": "/c/n0"}
        out.append(sp)
    return out


def cases(tier):
    out = []
    excs = ["ValueError", "KeyboardInterrupt", "UserBase", "StrRaises", "KeyError", "Falsy", "DDSException"] if tier == "quick" else list(EXCS)
    stores = ["memory", "local"] if tier == "quick" else ["memory", "local", "local_cache2"]
    for sp in programs(tier):
        fns = [f["name"] for f in sp["funcs"]]
        for entry in sp["entries"]:
            for failing in fns:
                for ex in excs:
                    for follow in ("same_disarmed", "same_armed", "other_pipeline"):
                        for st in stores:
                            if tier == "quick" and st == "local" and (ex != "KeyboardInterrupt" or follow != "same_disarmed"):
                                continue
                            out.append((sp, entry, st, failing, ex, follow))
    return out


def _job(items):
    w = J.world()
    out = []
    for sp, entry, st, failing, ex, follow in items:
        try:
            probs, n = one_case(w, sp, entry, st, failing, ex, follow)
        except BaseException as e:  # noqa
            import traceback
            raise core.HarnessError(f"{sp['id']} {entry} {failing} {ex}: {type(e).__name__} {e}\n{traceback.format_exc()[-1200:]}")
        out.append((probs, n))
    return out


def run(tier, seed):
    res = Result(P, "fault_enumeration")
    cs = cases(tier)
    outs = pool.pmap(_job, cs)
    n = 0
    for probs, k in outs:
        n += k
        for key, what, case in probs:
            res.violations.append(Violation(P, key, what, case))
    res.violations.sort(key=lambda v: len(str(v.replay["spec"])))
    progs = {c[0]["id"] for c in cs}
    res.coverage = dict(evaluations=len(cs), distinct_nontrivial=len({(c[0]["id"], c[1], c[3], c[4]) for c in cs}), exhaustive=True,
                        programs=len(progs), reached_faults=n,
                        rule="composite programs (<= 3 kept nodes; data functions, zero-argument / literal / run-time keeps) x entry x every function "
                             "of the program as the failing one x exception class x follow-up {same pipeline disarmed, same still armed, another "
                             "pipeline} x store; distinct_nontrivial = distinct (program, entry, failing function, exception class)",
                        samples=[{"program": cs[0][0]["id"], "entry": cs[0][1], "store": cs[0][2], "failing": cs[0][3], "exception": cs[0][4], "follow_up": cs[0][5]},
                                 {"program": cs[-1][0]["id"], "entry": cs[-1][1], "store": cs[-1][2], "failing": cs[-1][3], "exception": cs[-1][4], "follow_up": cs[-1][5]}])
    res.assumptions = ["the fault is raised at the start of the chosen function, before its own sub-calls",
                       "node signatures for the store diff come from a disarmed run of the same program on a twin store"]
    return res


def replay(case):
    w = J.world()
    probs, _ = one_case(w, case["spec"], case["entry"], case["store"], case["failing"], case["exc"], case["follow"])
    return [Violation(P, k, what, case) for k, what, _ in probs]
