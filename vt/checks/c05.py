"""C05 - value hashing is total, deterministic and collision-free on supported values.

Exhaustive enumeration of a bounded value grammar (vt.seqmc.values) through the real
dds.fun_args.dds_hash and through dds.keep(path, f, value); all-pairs collision check by
grouping on the hash and comparing canonical forms.
"""
import hashlib
import json
import os
import re
import subprocess
import sys

from .. import core
from ..core import Result, Violation
from ..seqmc import values as V

P = "C05"
TIER = ["quick"]
HEX64 = re.compile(r"^[0-9a-f]{64}$")
OK_CODES = {"TYPE_NOT_SUPPORTED", "SEQUENCE_TOO_LONG"}


def outcome(v):
    from dds.fun_args import dds_hash
    try:
        h = dds_hash(v)
    except BaseException as e:  # noqa
        if core.is_dds_exc(e):
            code = getattr(e, "error_code", None)
            return ("dds", getattr(code, "name", str(code)))
        return ("exc", core.exc_name(e))
    if not isinstance(h, str) or not HEX64.match(h):
        return ("badhash", repr(h)[:80])
    return ("h", h)


def _children(v):
    import dataclasses
    if isinstance(v, (list, tuple)):
        return list(v)
    if isinstance(v, dict):
        return list(v.keys()) + list(v.values())
    if dataclasses.is_dataclass(v):
        return [getattr(v, f.name) for f in dataclasses.fields(v)]
    return []


def _minimal_bad(v):
    for c in _children(v):
        if outcome(c)[0] in ("exc", "badhash"):
            return _minimal_bad(c)
    return v


def check_total(expr, v, out=None):
    out = out or outcome(v)
    if out[0] == "exc" or out[0] == "badhash":
        m = _minimal_bad(v)
        return [Violation(P, f"C05|crash|{out[1] if out[0] == 'exc' else 'badhash'}|{V.kind(V.canon(m))}",
                          f"dds_hash({expr}) -> {out}", {"mode": "total", "expr": expr})]
    if out[0] == "dds" and out[1] not in OK_CODES:
        return [Violation(P, f"C05|uncoded|{out[1]}|{V.kind(V.canon(_minimal_bad(v)))}",
                          f"dds_hash({expr}) raised DDSException with code {out[1]}", {"mode": "total", "expr": expr})]
    if out[0] == "dds" and out[1] == "TYPE_NOT_SUPPORTED":
        # every value of the grammar is of a supported type
        return [Violation(P, f"C05|refused|{V.kind(V.canon(v))}", f"dds_hash({expr}) refused a supported value",
                          {"mode": "total", "expr": expr})]
    return []


def _innermost(m, q):
    """descend two colliding values in parallel down to the (dict, list) pair that differs"""
    if isinstance(m, dict) and isinstance(q, (list, tuple)):
        return m, q
    if isinstance(q, dict) and isinstance(m, (list, tuple)):
        return q, m
    cm, cq = _children(m), _children(q)
    if len(cm) == len(cq):
        for x, y in zip(cm, cq):
            if V.canon(x) != V.canon(y):
                return _innermost(x, y)
    return ({}, [None]) if not isinstance(m, dict) else (m, [None])


def check_pair(ea, va, eb, vb):
    oa, ob = outcome(va), outcome(vb)
    if oa[0] == "h" and ob[0] == "h" and oa[1] == ob[1]:
        ca, cb = V.canon(va), V.canon(vb)
        if ca != cb:
            w = V.witness(ca, cb)
            if set(w) == {"map", "seq"}:
                # which list does the dict collide with? the list of its [key, value] pairs (a recorded finding) or another one
                mv, sv = (va, vb) if isinstance(va, dict) else (vb, va)
                im, iq = _innermost(mv, sv)
                pairs, other = V.canon([[k, x] for k, x in im.items()]), V.canon(iq)
                if pairs == other:
                    w = ("map", "seq_of_its_pairs")
                else:
                    # modulo that identification: what else differs between the list of pairs and the colliding list?
                    w2 = V.witness(pairs, other)
                    w = w2 if not ({"map", "seq", "seq_empty", "map_empty"} & set(w2)) else ("map", "seq_other")
            return [Violation(P, f"C05|collision|{w[0]}~{w[1]}", f"dds_hash({ea}) == dds_hash({eb})",
                              {"mode": "pair", "a": ea, "b": eb, "tier": TIER[0]})]
    return []


# ------------------------------------------------------------------ size guard

def size_cases():
    mk = {
        "list": lambda n: "[" + ", ".join("1" for _ in range(n)) + "]",
        "tuple": lambda n: "(" + "".join("1, " for _ in range(n)) + ")",
        "dict": lambda n: "{" + ", ".join(f"'k{i}': 1" for i in range(n)) + "}",
        "odict": lambda n: "OrderedDict([" + ", ".join(f"('k{i}', 1)" for i in range(n)) + "])",
        "nested_list": lambda n: "[0, " + mk["list"](n) + "]",
        "dict_value": lambda n: "{'k': " + mk["tuple"](n) + "}",
    }
    cases = []
    for k, f in mk.items():
        for n in (2, 3, 4, 5):
            cases.append((k, n, f(n)))
    cases += [("dataclass", 4, "D4()"), ("dataclass", 2, "DA(1, 2)"), ("dataclass", 1, "DC(1)")]
    return cases


def check_size(kind, n, expr, limit=3):
    import dds
    old = dds.get_option("hash.max_sequence_size")
    dds.set_option("hash.max_sequence_size", limit)
    try:
        out = outcome(V.ev(expr))
    finally:
        dds.set_option("hash.max_sequence_size", old)
    want_too_long = n > limit
    bad = None
    if want_too_long and out != ("dds", "SEQUENCE_TOO_LONG"):
        bad = f"length {n} > max {limit} but got {out}"
    if not want_too_long and out[0] != "h":
        bad = f"length {n} <= max {limit} but got {out}"
    if bad:
        return [Violation(P, f"C05|sizeguard|{kind}|{'over' if want_too_long else 'within'}", f"{expr}: {bad}",
                          {"mode": "size", "kind": kind, "n": n, "expr": expr})]
    return []


# ------------------------------------------------------------------ where the error is raised

BAD = {"TYPE_NOT_SUPPORTED": ["set()", "b'x'", "object()", "1j", "range(3)", "(lambda: 1)", "DA", "int"],
       "SEQUENCE_TOO_LONG": ["[1, 1, 1, 1, 1]", "(1, 1, 1, 1, 1)", "{'a': 1, 'b': 1, 'c': 1, 'd': 1, 'e': 1}",
                             # too long AND holding supported values that are awkward to print (an error message must not choke on them)
                             "[10**5000, 1, 1, 1, 1]", "(1, -10**5000, 1, 1, 1)", "{10**5000: 1, 'b': 1, 'c': 1, 'd': 1, 'e': 1}",
                             "['\\ud800', 1, 1, 1, 1]", "{'a': 10**5000, 'b': '\\udfff', 'c': 1, 'd': 1, 'e': 1}",
                             "[[10**5000], DA(1, 2), {}, None, 1.5]"]}
DICT_KEYS = ["'a'", "0", "True", "None", "1.5", "(1, 2)", "(10**5000,)", "datetime.date(2020, 1, 2)", "datetime.time(3, 4)", "PurePosixPath('a')", "''", "10**5000",
             "datetime.datetime(2020, 1, 2, 3, 4, 5)", "-1", "'a.b'", "'[0]'"]


def position_wrappers(depth):
    """expressions with one hole: every position a value can occupy below `depth` containers"""
    one = ["[{}]", "[0, {}]", "({},)", "(0, 'a', {})", "DC({})", "DA(0, {})"]
    one += ["{{" + k + ": {}}}" for k in DICT_KEYS] + ["OrderedDict([(" + k + ", {})])" for k in DICT_KEYS[:6]]
    out = ["{}"] + list(one)   # "{}": the value itself (top level)
    if depth >= 2:
        out += [a.replace("{}", b) for a in one for b in one]
    return out


def check_position(wrapper, code, bad):
    import dds
    expr = wrapper.format(bad)
    old = dds.get_option("hash.max_sequence_size")
    dds.set_option("hash.max_sequence_size", 4)
    try:
        out = outcome(V.ev(expr))
    finally:
        dds.set_option("hash.max_sequence_size", old)
    if out != ("dds", code):
        where = re.sub(r"'[^']*'|[0-9.]+", "", wrapper).replace("{}", "_")[:40]
        return [Violation(P, f"C05|error_position|{code}|{out[1] if out[0] != 'h' else 'hashed'}",
                          f"dds_hash({expr}) with hash.max_sequence_size=4 -> {out}, expected DDSException {code} (position {where})",
                          {"mode": "position", "wrapper": wrapper, "code": code, "bad": bad})]
    return []


def check_unlimited():
    """hash.max_sequence_size accepts None (no limit)"""
    import dds
    old = dds.get_option("hash.max_sequence_size")
    r = call_opt(lambda: dds.set_option("hash.max_sequence_size", None))
    try:
        if r[0] != "ok":
            return []   # the option refuses None: nothing to check
        o = outcome([1, 2, 3])
        if o[0] != "h":
            return [Violation(P, f"C05|option_none|{o[1]}", f"with hash.max_sequence_size=None (accepted by set_option), dds_hash([1, 2, 3]) -> {o}", {"mode": "unlimited"})]
        return []
    finally:
        dds.set_option("hash.max_sequence_size", old)


def call_opt(f):
    try:
        return ("ok", f())
    except BaseException as e:  # noqa
        return ("exc", type(e).__name__)


# ------------------------------------------------------------------ through dds.keep

KEEP_MOD = "def f(x):\n    return 'r'\n\ndef g(x, y=0):\n    return 'r'\n"


def keep_sig(scratch, expr):
    """signature handed to sync_paths for dds.keep('/p', f, value)."""
    import dds
    from ..stores import CaptureStore
    if scratch not in sys.path:
        sys.path.insert(0, scratch)
    mp = os.path.join(scratch, "c05mod.py")
    if not os.path.exists(mp):
        open(mp, "w").write(KEEP_MOD)
    import c05mod
    dds.accept_module("c05mod")
    st = CaptureStore()
    dds.set_store(st)
    try:
        dds.keep("/p", c05mod.f, V.ev(expr))
    except BaseException as e:  # noqa
        if core.is_dds_exc(e):
            return ("dds", getattr(getattr(e, "error_code", None), "name", "None"))
        return ("exc", core.exc_name(e))
    return ("h", st.last_sync.get("/p"))


def check_keep_pair(scratch, ea, eb):
    """dds.keep separates exactly what dds_hash separates."""
    sa, sb = keep_sig(scratch, ea), keep_sig(scratch, eb)
    oa, ob = outcome(V.ev(ea)), outcome(V.ev(eb))
    vs = []
    for e, s, o in ((ea, sa, oa), (eb, sb, ob)):
        if s[0] == "exc" or (s[0] == "dds" and o[0] == "h"):
            vs.append(Violation(P, f"C05|keep|crash|{s[1]}|{V.kind(V.canon(_minimal_bad(V.ev(e))))}",
                                f"dds.keep('/p', f, {e}) -> {s} while dds_hash -> {o[0]}",
                                {"mode": "keep", "a": ea, "b": eb}))
    if not vs and sa[0] == "h" and sb[0] == "h":
        if (sa[1] == sb[1]) != (oa[1] == ob[1]) and V.canon(V.ev(ea)) != V.canon(V.ev(eb)) and sa[1] == sb[1]:
            w = V.witness(V.canon(V.ev(ea)), V.canon(V.ev(eb)))
            if set(w) == {"map", "seq"}:
                w = ("map", "seq_other")
            vs.append(Violation(P, f"C05|keep|collision|{w[0]}~{w[1]}",
                                f"dds.keep('/p', f, {ea}) and ({eb}) share a signature", {"mode": "keep", "a": ea, "b": eb}))
    return vs


# ------------------------------------------------------------------ table in other interpreters

def table_digest(tier, reverse=False):
    uni = V.universe(tier)
    if reverse:
        uni = list(reversed(uni))   # a hash must not depend on what was hashed before it in the process
    return {e: list(outcome(v)) for e, v in uni}


def _foreign_table(tier, hashseed, reverse=False):
    env = dict(os.environ, PYTHONHASHSEED=str(hashseed), PYTHONPATH=core.VERIF, PYTHONDONTWRITEBYTECODE="1")
    code = ("import sys, json; from vt import core; core.ensure_repo_dds(); from vt.checks import c05; "
            f"json.dump(c05.table_digest({tier!r}, {reverse!r}), sys.stdout)")
    p = subprocess.run([core.PY, "-c", code], env=env, capture_output=True, text=True, cwd="/", timeout=3000)
    if p.returncode != 0:
        raise core.HarnessError("foreign table failed: " + p.stderr[-1500:])
    return json.loads(p.stdout)


def run(tier, seed):
    res = Result(P, "exploration")
    TIER[0] = tier
    uni = V.universe(tier)
    table = {}
    groups = {}
    outcomes = {}
    for e, v in uni:
        o = outcome(v)
        table[e] = list(o)
        outcomes[o[0]] = outcomes.get(o[0], 0) + 1
        res.violations += check_total(e, v, o)
        if o[0] == "h":
            groups.setdefault(o[1], []).append((e, v))
    npairs = 0
    for h, members in groups.items():
        if len(members) < 2:
            continue
        canons = {}
        for e, v in members:
            canons.setdefault(V.canon(v), (e, v))
        reps = list(canons.values())
        npairs += len(members) * (len(members) - 1) // 2
        for i in range(len(reps)):
            for j in range(i + 1, len(reps)):
                res.violations += check_pair(reps[i][0], reps[i][1], reps[j][0], reps[j][1])
    # determinism across interpreters / hash seeds
    seeds = [1, 1000 + seed % 997]
    for i, hs in enumerate(seeds):
        rev = i == 1   # the second interpreter also hashes the universe in the opposite order
        ft = _foreign_table(tier, hs, rev)
        if ft != table:
            diff = [e for e in table if ft.get(e) != table[e]][:3]
            res.violations.append(Violation(P, "C05|nondeterministic|" + ("hashseed_or_order" if rev else "hashseed"),
                                            f"hash table differs under PYTHONHASHSEED={hs}{' with the values hashed in the opposite order' if rev else ''}: {diff}",
                                            {"mode": "seed", "tier": tier, "hashseed": hs, "exprs": diff, "reverse": rev}))
    # size guard
    sc = size_cases()
    for k, n, e in sc:
        res.violations += check_size(k, n, e)
    # every position x every refusal: the error is the coded one wherever the offending value sits
    npos = 0
    for w in position_wrappers(1 if tier == "quick" else 2):
        for code, bads in BAD.items():
            for b in (bads if tier != "quick" or "{}" == w else bads[:3]):
                res.violations += check_position(w, code, b)
                npos += 1
    # deep nesting and the unlimited size option: a signature or a coded error, never a low-level exception
    import dds
    deep = []
    for _ in range(5000):
        deep = [deep]
    loop = []
    loop.append(loop)
    for nm, val in (("nested_5000_deep", deep), ("list_containing_itself", loop)):
        o = outcome(val)
        if o[0] not in ("h", "dds"):
            res.violations.append(Violation(P, f"C05|crash|{o[1]}|{nm}", f"dds_hash of a list {nm.replace('_', ' ')} -> {o}", {"mode": "deep", "which": nm}))
    res.violations += check_unlimited()
    # keep route: atoms + depth-1 sample, all pairs inside groups of equal keep signature
    nkeep = 0
    with core.Scratch("c05") as scratch:
        atoms = V.ATOMS + ["[]", "()", "{}", "OrderedDict([])", "[1]", "(1,)", "[1, 2]", "['a']", "{'a': 1}", "{'a': 2}",
                           "{'b': 1}", "[[]]", "['']", "[None]", "DA(1, 2)", "DB(1, 2)", "DA(1, 0)", "DC(1)", "D0()", "[0]"]
        sigs = {}
        for e in atoms:
            s = keep_sig(scratch, e)
            nkeep += 1
            sigs.setdefault(tuple(s), []).append(e)
            if s[0] != "h":
                res.violations += check_keep_pair(scratch, e, e)
        for s, es in sigs.items():
            if s[0] == "h":
                for i in range(1, len(es)):
                    res.violations += check_keep_pair(scratch, es[0], es[i])
        # refinement direction: dds_hash-equal values must also be keep-equal
        byh = {}
        for e in atoms:
            o = table.get(e) or list(outcome(V.ev(e)))
            if o[0] == "h":
                byh.setdefault(o[1], []).append(e)
        for h, es in byh.items():
            ks = {tuple(keep_sig(scratch, e)) for e in es}
            nkeep += len(es)
            if len(ks) > 1:
                res.violations.append(Violation(P, "C05|keep|splits_hash_class", f"{es} hash equal but keep signatures differ",
                                                {"mode": "keepsplit", "exprs": es}))
    res.coverage = dict(
        evaluations=len(uni) * (1 + len(seeds)) + len(sc) + nkeep + npos,
        distinct_nontrivial=len(groups),
        rule=("every value of the bounded grammar (atoms incl. boundary ints, signed zeros, nan/inf, separator-like strings, "
              "dates, paths; lists/tuples len<=3, dicts/OrderedDicts <=2 entries in both insertion orders, dataclasses; nesting depth "
              f"{2 if tier == 'quick' else 3}) hashed once here and once in each of {len(seeds)} other interpreters with different "
              "PYTHONHASHSEED; distinct_nontrivial = number of distinct hashes obtained; all pairs compared by grouping on the hash"),
        exhaustive=True,
        values=len(uni), pairs_in_equal_hash_groups=npairs, outcome_counts=outcomes,
        size_guard_cases=len(sc), keep_route_calls=nkeep, error_position_cases=npos, hash_seeds=[0] + seeds,
        samples=[uni[0][0], uni[len(uni) // 3][0], uni[len(uni) // 2][0], uni[-1][0]],
    )
    res.assumptions = ["digest-shaped strings (a 64-hex string equal to another value's hash) are outside the alphabet",
                       "int vs float with equal numeric value are treated as different values"]
    return res


def replay(case):
    m = case["mode"]
    if m == "total":
        return check_total(case["expr"], V.ev(case["expr"]))
    if m == "pair":
        # hash the whole universe first, in the order of the run: an implementation with hidden state (a memo) may only
        # collide after other values have been hashed
        for e, v in V.universe(case.get("tier", "quick")):
            outcome(v)
        return check_pair(case["a"], V.ev(case["a"]), case["b"], V.ev(case["b"]))
    if m == "size":
        return check_size(case["kind"], case["n"], case["expr"])
    if m == "unlimited":
        return check_unlimited()
    if m == "deep":
        v = []
        if case["which"] == "list_containing_itself":
            v.append(v)
        else:
            for _ in range(5000):
                v = [v]
        o = outcome(v)
        return [Violation(P, f"C05|crash|{o[1]}|{case['which']}", f"-> {o}", case)] if o[0] not in ("h", "dds") else []
    if m == "position":
        return check_position(case["wrapper"], case["code"], case["bad"])
    if m == "seed":
        here = table_digest(case["tier"])
        there = _foreign_table(case["tier"], case["hashseed"], case.get("reverse", False))
        if here != there:
            return [Violation(P, "C05|nondeterministic|" + ("hashseed_or_order" if case.get("reverse") else "hashseed"), "tables differ", case)]
        return []
    if m in ("keep", "keepsplit"):
        with core.Scratch("c05") as scratch:
            if m == "keep":
                return check_keep_pair(scratch, case["a"], case["b"])
            ks = {tuple(keep_sig(scratch, e)) for e in case["exprs"]}
            return [Violation(P, "C05|keep|splits_hash_class", "keep signatures differ", case)] if len(ks) > 1 else []
    raise core.HarnessError("unknown replay mode " + m)
