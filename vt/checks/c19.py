"""C19 - the DBFS store honours its commit type and keeps legacy blobs readable.

Runs the real DBFSStore against a dictionary-backed fake of dbutils.fs. BFS over {keep, eval, edit, load}
sequences per commit type against a dictionary model of what must be under the data directory; every
documented spelling of the commit type must be accepted; blobs written the way the legacy codecs wrote them
must decode to the original value.
"""
import importlib
import io
import json
import os
import pickle
import shutil
import sys
import tempfile
import time

from .. import core, pool
from ..core import Result, Violation
from ..seqmc import bfs
from ..seqmc.fake_dbutils import FakeDbutils
from ..seqmc.models import call

P = "C19"
MOD = '''import dds
X = 0

def fa():
    return "A%d" % X

def fb():
    return b"B\\x00%d" % X

def fx():
    return "x%d" % X

def fz():
    return {"z": X}

def root():
    a = dds.keep("/.q/x", fx)
    b = dds.keep("/q/y/z", fz)
    return (a, b)
'''
COMMIT = {"full": "full", "links_only": "links", "none": "none", None: "full"}
SPELLINGS = [None, "full", "FULL", "Full", "links_only", "LINKS_ONLY", "Links_Only", "none", "NONE", "None"]


def expected(name, x):
    return {"fa": "A%d" % x, "fb": b"B\x00%d" % x, "fx": "x%d" % x, "fz": {"z": x}}[name]


def enc(v):
    if isinstance(v, str):
        return v.encode("utf-8")
    if isinstance(v, bytes):
        return v
    return None  # pickled: compared with the blob itself


class Sys:
    pass


_MODN = [0]


def build(ct):
    import dds
    s = Sys()
    s.ct = ct
    s.root = tempfile.mkdtemp(prefix="ddsvt_c19_")
    _MODN[0] += 1
    s.modname = f"c19mod_{os.getpid()}_{_MODN[0]}"
    open(os.path.join(s.root, s.modname + ".py"), "w").write(MOD)
    sys.path.insert(0, s.root)
    importlib.invalidate_caches()
    s.mod = importlib.import_module(s.modname)
    dds.accept_module(s.modname)
    s.db = FakeDbutils()
    s.open_result = call(lambda: dds.set_store("dbfs", internal_dir="dbfs:/int", data_dir="dbfs:/data", dbutils=s.db, commit_type=ct))
    s.x = 0
    s.committed = {}   # path -> (fn name, x)
    # a second live store object on the same DBFS (another notebook / cluster); ("switch",) makes the other one current
    import dds._api as api
    s.stores = [api._store(), None]
    s.cur = 0
    return s


def teardown(s):
    import dds._api as api
    import dds.introspect as intro
    api._store_var = None
    api._eval_ctx = None
    intro._accepted_packages.discard(s.modname)
    sys.modules.pop(s.modname, None)
    if s.root in sys.path:
        sys.path.remove(s.root)
    shutil.rmtree(s.root, ignore_errors=True)


def check_data_dir(s, bad):
    files = s.db.fs.files
    kind = COMMIT[s.ct.lower() if isinstance(s.ct, str) else s.ct]
    under = {k: v for k, v in files.items() if k.startswith("dbfs:/data")}
    if kind == "none":
        if under:
            bad("none|wrote_under_data_dir", f"commit type 'none' but {sorted(under)[:3]} exist")
        return
    for path, (fn, x) in s.committed.items():
        rec = under.get("dbfs:/data/_dds_meta" + path)
        if rec is None:
            bad(f"{kind}|record_missing", f"no redirect record for {path}")
            continue
        try:
            sig = json.loads(rec)["redirection_key"]
        except Exception:
            bad(f"{kind}|record_unreadable", f"redirect record of {path}: {rec[:60]!r}")
            continue
        blob = files.get("dbfs:/int/blobs/" + sig)
        if blob is None:
            bad(f"{kind}|record_points_nowhere", f"record of {path} names {sig[:8]} which has no blob")
            continue
        want = enc(expected(fn, x))
        if want is not None and blob != want:
            bad(f"{kind}|blob_not_verbatim", f"blob of {path} is {blob[:30]!r}, expected {want!r}")
        if want is None and pickle.loads(blob) != expected(fn, x):
            bad(f"{kind}|blob_wrong", f"blob of {path} decodes to {pickle.loads(blob)!r}")
        copy = under.get("dbfs:/data" + path)
        if kind == "full":
            if copy is None:
                bad("full|copy_missing", f"no copy of the result at dbfs:/data{path}")
            elif copy != blob:
                bad("full|copy_differs", f"copy at dbfs:/data{path} differs from the blob")
        else:
            if copy is not None:
                bad("links|copied_data", f"links-only commit wrote a copy at dbfs:/data{path}")
    extra = [k for k in under if not k.startswith("dbfs:/data/_dds_meta/") and k[len("dbfs:/data"):] not in s.committed]
    if extra:
        bad(f"{kind}|unexpected_files", f"unexpected files under the data dir: {extra[:3]}")


def apply(s, op, dir_check=None):
    import dds
    probs = []

    def bad(tag, what):
        probs.append((f"C19|{tag}", f"[commit_type={s.ct!r}] {op}: {what}"))

    if s.open_result[0] != "ok":
        bad(f"commit_type_refused|{str(s.ct).lower()}|{s.open_result[0]}:{s.open_result[1]}",
            f"set_store('dbfs', commit_type={s.ct!r}) -> {s.open_result}")
        return probs
    k = op[0]
    if k == "switch":
        import dds._api as api
        s.stores[s.cur] = api._store()
        s.cur = 1 - s.cur
        if s.stores[s.cur] is None:
            dds.set_store("dbfs", internal_dir="dbfs:/int", data_dir="dbfs:/data", dbutils=s.db, commit_type=s.ct)
            s.stores[s.cur] = api._store()
        else:
            dds.set_store(s.stores[s.cur])
        return probs
    if k == "wipe_data_dir":
        # somebody cleans the data directory behind the store's back: the next keep has to re-create records and copies
        for f in [f for f in s.db.fs.files if f.startswith("dbfs:/data")]:
            del s.db.fs.files[f]
        s.committed = {}
        return probs
    if k == "set":
        s.x = op[1]
        s.mod.X = op[1]
        return probs
    if k == "keep":
        fn, path = {"a": ("fa", "/p/a"), "b": ("fb", "/p/b")}[op[1]]
        r = call(lambda: dds.keep(path, getattr(s.mod, fn)))
        if r != ("ok", expected(fn, s.x)):
            bad(f"keep|wrong_result|{r[0]}", f"keep -> {r!r}, expected {expected(fn, s.x)!r}")
            return probs
        s.committed[path] = (fn, s.x)
    elif k == "eval":
        r = call(lambda: dds.eval(s.mod.root))
        want = (expected("fx", s.x), expected("fz", s.x))
        if r != ("ok", want):
            bad(f"eval|wrong_result|{r[0]}", f"eval -> {r!r}, expected {want!r}")
            return probs
        s.committed["/.q/x"] = ("fx", s.x)
        s.committed["/q/y/z"] = ("fz", s.x)
    elif k == "load":
        path = op[1]
        r = call(lambda: dds.load(path))
        has_record = ("dbfs:/data/_dds_meta" + path) in s.db.fs.files
        if path in s.committed and COMMIT[s.ct.lower() if isinstance(s.ct, str) else s.ct] != "none":
            fn, x = s.committed[path]
            if r != ("ok", expected(fn, x)):
                bad(f"load|committed|{r[0]}", f"load -> {r!r}, latest kept {expected(fn, x)!r}")
        elif r[0] == "ok" and not has_record:
            bad("load|served_without_record", f"load -> {r!r} although no record exists")
    (dir_check or check_data_dir)(s, bad)
    return probs


def key(s):
    files = []
    for k_, v in sorted(s.db.fs.files.items()):
        if k_.endswith(".meta"):
            try:
                j = json.loads(v)
                j.pop("timestamp_millis", None)
                v = json.dumps(j, sort_keys=True).encode()
            except Exception:
                pass
        files.append((k_, v))
    import dds._api as api
    from ..seqmc.models import canon
    def hid(st):
        return canon({k_: v for k_, v in vars(st).items() if k_ not in ("_dbutils", "_registry")}) if st is not None else None
    stores = list(getattr(s, "stores", [api._store(), None]))
    stores[getattr(s, "cur", 0)] = api._store()
    return (s.x, tuple(sorted(s.committed.items())), tuple(files), getattr(s, "cur", 0), tuple(hid(st) for st in stores))


ALPHA = [("keep", "a"), ("keep", "b"), ("eval",), ("set", 0), ("set", 1), ("load", "/p/a"), ("load", "/q/y/z"), ("load", "/p/b"), ("load", "/.q/x")]


ALPHA2 = [("keep", "a"), ("set", 0), ("set", 1), ("switch",), ("wipe_data_dir",), ("load", "/p/a")]


def _job(items):
    core.ensure_repo_dds()
    time.time = lambda: 1.6e9
    out = []
    for ct, depth in items:
        two = isinstance(ct, tuple)
        if two:
            ct = ct[1]
        st = bfs.explore(ALPHA2 if two else ALPHA, lambda: build(ct), apply, key, depth, teardown=teardown)
        out.append(dict(ct=("two_stores:" + str(ct)) if two else ct, depth=depth, states=st.states, transitions=st.transitions, closed=st.closed, samples=st.samples[:2],
                        problems=[(list(h), list(o), p) for h, o, p in st.problems[:100]]))
    return out


# ------------------------------------------------------------------ legacy blobs

def legacy_cases():
    import pandas as pd
    df = pd.DataFrame({"x": [1, 2]})
    buf = io.BytesIO()
    df.to_parquet(buf)
    return [
        ("dbfs", "dbfs.string", "héllo\n".encode("utf-8"), "héllo\n"),
        ("dbfs", "dbfs.bytes", b"\x00raw\xff", b"\x00raw\xff"),
        ("dbfs", "dbfs.pickle", pickle.dumps({"k": [1, None]}), {"k": [1, None]}),
        ("dbfs", "dbfs.pickle", pickle.dumps(None), None),
        ("dbfs", "local.string", b"cur", "cur"),
        ("dbfs", "local.bytes", b"cur", b"cur"),
        ("dbfs", "local.pickle", pickle.dumps(7), 7),
        ("local", "default.pandas_local", buf.getvalue(), df),
        ("local", "local.pandas", buf.getvalue(), df),
    ]


def check_legacy(i):
    import dds
    import dds._api as api
    kind, ref, raw, want = legacy_cases()[i]
    key_ = "ab" * 32
    root = tempfile.mkdtemp(prefix="ddsvt_c19l_")
    probs = []
    try:
        if kind == "dbfs":
            db = FakeDbutils()
            db.fs.files["dbfs:/int/blobs/" + key_] = raw
            db.fs.files["dbfs:/int/blobs/" + key_ + ".meta"] = json.dumps({"protocol": ref, "timestamp_millis": 1}).encode()
            dds.set_store("dbfs", internal_dir="dbfs:/int", data_dir="dbfs:/data", dbutils=db)
        else:
            os.makedirs(os.path.join(root, "i", "blobs"))
            open(os.path.join(root, "i", "blobs", key_), "wb").write(raw)
            open(os.path.join(root, "i", "blobs", key_ + ".meta"), "w").write(json.dumps({"protocol": ref, "timestamp_millis": 1}))
            dds.set_store("local", internal_dir=os.path.join(root, "i"), data_dir=os.path.join(root, "d"))
        st = api._store()
        # a user registers a codec of their own on the live store (the documented way) before reading: the codecs that were
        # there, legacy aliases included, stay available
        from dds.structures import FileCodecProtocol, ProtocolRef
        from dds.structures_utils import SupportedTypeUtils as STU

        class _UserT:
            pass

        class _UserCodec(FileCodecProtocol):
            def ref(self):
                return ProtocolRef("user.c19")

            def handled_types(self):
                return [STU.from_type(_UserT)]

            def serialize_into(self, blob, loc):
                open(loc, "wb").write(b"u")

            def deserialize_from(self, loc):
                return _UserT()
        st.codec_registry().add_file_codec(_UserCodec())
        r = call(lambda: st.fetch_blob(key_))
        ok = r[0] == "ok" and (r[1].equals(want) if hasattr(want, "equals") and hasattr(r[1], "equals") else (type(r[1]) is type(want) and r[1] == want))
        if not ok:
            got = f"{type(r[1]).__name__}:{r[1]!r}"[:60] if r[0] == "ok" else f"{r[0]}:{r[1]}"
            probs.append((f"C19|legacy|{ref}|{type(want).__name__}|got={got.split(':')[0] if r[0] == 'ok' else got}",
                          f"blob written by the {ref} codec ({raw[:16]!r}...) decodes to {got}, expected {want!r}"))
        if kind == "dbfs" and ref in LEGACY_TO_CURRENT:
            # committing a path to a legacy blob (a new path for an old result, a revert, a new data directory) behaves
            # exactly like committing it to the same bytes written by the current codec
            for ct in ("full", "links_only", "none"):
                old_, new_ = _sync_outcome(ref, raw, key_, ct), _sync_outcome(LEGACY_TO_CURRENT[ref], raw, key_, ct)
                if old_ != new_:
                    probs.append((f"C19|legacy_sync|{ref}|{ct}|{old_[0] if old_[0] != 'ok' else 'data_differs'}",
                                  f"[commit_type={ct}] committing two paths to a blob written by the {ref} codec gives {str(old_)[:200]}; "
                                  f"the same bytes under {LEGACY_TO_CURRENT[ref]} give {str(new_)[:200]}"))
    finally:
        api._store_var = None
        shutil.rmtree(root, ignore_errors=True)
    return probs


LEGACY_TO_CURRENT = {"dbfs.string": "local.string", "dbfs.bytes": "local.bytes", "dbfs.pickle": "local.pickle"}


def _sync_outcome(ref, raw, key_, ct):
    """(status, fetch_paths answer, files under the data directory) after committing /leg/p and /leg/q/r to the blob, then
    re-pointing /leg/p to another (current) blob and back"""
    import dds
    import dds._api as api
    db = FakeDbutils()
    other = "cd" * 32
    for k, (r, b) in {key_: (ref, raw), other: ("local.string", b"other")}.items():
        db.fs.files["dbfs:/int/blobs/" + k] = b
        db.fs.files["dbfs:/int/blobs/" + k + ".meta"] = json.dumps({"protocol": r, "timestamp_millis": 1}).encode()
    try:
        dds.set_store("dbfs", internal_dir="dbfs:/int", data_dir="dbfs:/data", dbutils=db, commit_type=ct)
        st = api._store()
        from collections import OrderedDict
        steps = [OrderedDict([("/leg/p", key_), ("/leg/q/r", key_)]), OrderedDict([("/leg/p", other)]), OrderedDict([("/leg/p", key_)])]
        for m in steps:
            r = call(lambda: st.sync_paths(m))
            if r[0] != "ok":
                return (f"{r[0]}:{r[1]}", None, None)
        got = call(lambda: dict(st.fetch_paths(["/leg/p", "/leg/q/r"])))
        files = {k: v for k, v in db.fs.files.items() if k.startswith("dbfs:/data")}
        return ("ok", got, sorted((k, v if not k.endswith(".meta") else b"<meta>") for k, v in files.items()))
    finally:
        api._store_var = None


# ------------------------------------------------------------------ one failing dbutils call, then a retry

NCALLS = [0]   # number of dbutils calls the last faulty operation made (the sweep runs over all of them)


class FailOnce:
    """fs proxy: the i-th call raises once (a transient service error); everything else goes through"""

    def __init__(self, fs, at):
        self._fs, self._at, self.n, self.fired = fs, at, 0, None

    def __getattr__(self, name):
        real = getattr(self._fs, name)
        if name not in ("cp", "head", "put", "rm"):
            return real

        def w(*a, **k):
            i = self.n
            self.n += 1
            if i == self._at and name != "head":   # a failing head is indistinguishable from "absent": not a fault
                self.fired = (name,) + tuple(str(x)[:60] for x in a[:2])
                raise Exception("java.io.IOException: transient failure")
            return real(*a, **k)
        return w


def check_fault(ct, target, at):
    """keep/eval with the at-th dbutils call failing once; then the same call again must succeed with correct results."""
    import dds
    s = build(ct)
    probs = []
    try:
        if s.open_result[0] != "ok":
            return probs, None
        proxy = FailOnce(s.db.fs, at)
        s.db.fs = proxy
        op = {"a": ("keep", "a"), "b": ("keep", "b"), "eval": ("eval",)}[target]
        first = apply_raw(s, op)
        fired = proxy.fired
        proxy._at = -1
        NCALLS[0] = max(NCALLS[0], proxy.n)
        if fired is None:
            return probs, None
        s.db.fs = proxy._fs
        pr = apply(s, op)          # retry: model and data-directory oracle as usual
        for k, w in pr:
            probs.append((k.replace("C19|", f"C19|after_fault@{fired[0]}|", 1), f"after a failed {fired} during {op} ({first[0]}): {w}"))
        for lp in [("load", "/p/a"), ("load", "/p/b"), ("load", "/.q/x"), ("load", "/q/y/z")]:
            for k, w in apply(s, lp):
                probs.append((k.replace("C19|", f"C19|after_fault@{fired[0]}|", 1), f"after a failed {fired} during {op} and a retry: {w}"))
        return probs, fired
    finally:
        teardown(s)


def check_mixed(phases, target):
    """one data directory used under a sequence of configurations: phases = [(commit type, value of the tracked variable)], the
    same keep / eval repeated in each. After every phase: what the commit type of the LATEST keep of a path promises holds for
    that path (record for links-only and full, byte-identical copy for full); a links-only phase changes nothing but records and a
    'none' phase changes nothing under the data directory."""
    import dds
    s = build(phases[0][0])
    probs = []
    try:
        if s.open_result[0] != "ok":
            return probs
        op = {"a": ("keep", "a"), "b": ("keep", "b"), "eval": ("eval",)}[target]
        touched = {"a": ["/p/a"], "b": ["/p/b"], "eval": ["/.q/x", "/q/y/z"]}[target]
        kinds = {}
        hist = []
        for n, (ct, x) in enumerate(phases):
            if n:
                dds.set_store("dbfs", internal_dir="dbfs:/int", data_dir="dbfs:/data", dbutils=s.db, commit_type=ct)
                s.ct = ct
            apply(s, ("set", x))
            hist.append(f"{ct}:X={x}")
            before = {k: v for k, v in s.db.fs.files.items() if k.startswith("dbfs:/data")}

            def dir_check(s, bad, ct=ct, before=before):
                files = s.db.fs.files
                under = {k: v for k, v in files.items() if k.startswith("dbfs:/data")}
                for p_ in touched:
                    if p_ in s.committed:
                        kinds[p_] = ct
                if ct == "none" and under != before:
                    bad("none|wrote_under_data_dir", f"commit type 'none' changed {sorted(k for k in set(under) | set(before) if under.get(k) != before.get(k))[:3]}")
                if ct == "links_only":
                    ch = [k for k in set(under) | set(before) if under.get(k) != before.get(k) and not k.startswith("dbfs:/data/_dds_meta/")]
                    if ch:
                        bad("links|copied_data", f"a links-only commit changed {sorted(ch)[:3]}")
                for path, (fn, xx) in s.committed.items():
                    kind = kinds.get(path)
                    if kind in (None, "none"):
                        continue
                    rec = under.get("dbfs:/data/_dds_meta" + path)
                    if rec is None:
                        bad(f"{kind}|record_missing", f"no redirect record for {path}")
                        continue
                    sig = json.loads(rec)["redirection_key"]
                    blob = files.get("dbfs:/int/blobs/" + sig)
                    want = enc(expected(fn, xx))
                    if blob is None or (want is not None and blob != want) or (want is None and pickle.loads(blob) != expected(fn, xx)):
                        bad(f"{kind}|record_names_other_result", f"the record of {path} does not name the blob of the result kept last ({fn}, X={xx})")
                        continue
                    if kind == "full" and under.get("dbfs:/data" + path) != blob:
                        c = under.get("dbfs:/data" + path)
                        bad("full|copy_differs" if c is not None else "full|copy_missing",
                            f"after a 'full' keep of {path} the copy at dbfs:/data{path} is {c[:20] if c else c!r}, the kept result's blob is {blob[:20]!r}")

            for k, w in apply(s, op, dir_check):
                probs.append((k.replace("C19|", "C19|mixed_commit_types|", 1), f"history {' -> '.join(hist)}: {w}"))
            if probs:
                return probs
        return probs
    finally:
        teardown(s)


def check_fault_then_revert(ct, target, at):
    """result kept (X=0); code changed (X=1) and kept again with the at-th dbutils call failing once; code reverted (X=0) and
    kept: the data directory holds what the commit type promises for the reverted result"""
    import dds
    s = build(ct)
    probs = []
    try:
        if s.open_result[0] != "ok":
            return probs, None
        op = {"a": ("keep", "a"), "b": ("keep", "b"), "eval": ("eval",)}[target]
        if apply(s, op):
            return probs, None
        apply(s, ("set", 1))
        proxy = FailOnce(s.db.fs, at)
        s.db.fs = proxy
        first = apply_raw(s, op)
        fired = proxy.fired
        proxy._at = -1
        NCALLS[0] = max(NCALLS[0], proxy.n)
        s.db.fs = proxy._fs
        if fired is None:
            return probs, None
        apply(s, ("set", 0))
        for k, w in apply(s, op):
            probs.append((k.replace("C19|", f"C19|revert_after_fault@{fired[0]}|", 1), f"after a failed {fired} during the re-keep with changed code ({first[0]}) and a revert: {w}"))
        return probs, fired
    finally:
        teardown(s)


def apply_raw(s, op):
    import dds
    if op[0] == "keep":
        fn, path = {"a": ("fa", "/p/a"), "b": ("fb", "/p/b")}[op[1]]
        return call(lambda: dds.keep(path, getattr(s.mod, fn)))
    return call(lambda: dds.eval(s.mod.root))


def run(tier, seed):
    res = Result(P, "model_checking")
    depth = 5 if tier == "quick" else 7
    jobs = [(ct, depth if ct in (None, "full", "links_only", "none") else 2) for ct in SPELLINGS]
    jobs += [(("two_stores", ct), 7 if tier == "quick" else 9) for ct in ("full", "links_only")]
    outs = pool.pmap(_job, jobs, chunk=1)
    states = trans = 0
    per = []
    for o in outs:
        states += o["states"]
        trans += o["transitions"]
        per.append({k: o[k] for k in ("ct", "depth", "states", "transitions", "closed")})
        for h, op, p in o["problems"]:
            res.violations.append(Violation(P, p[0], f"after {h}: {p[1]}", {"mode": "seq", "ct": str(o["ct"]).replace("two_stores:", "") if o["ct"] is not None else None, "ops": h + [op]}))
    n_leg = len(legacy_cases())
    for i in range(n_leg):
        for k, w in check_legacy(i):
            res.violations.append(Violation(P, k, w, {"mode": "legacy", "i": i}))
    n_fault = 0
    for ct in ("full", "links_only", "none"):
        for target in ("a", "b", "eval"):
            at = 0
            NCALLS[0] = 1
            while at < max(NCALLS[0], 1) and at < 200:
                pr, fired = check_fault(ct, target, at)
                if fired is not None:
                    n_fault += 1
                for k, w in pr:
                    res.violations.append(Violation(P, k, w, {"mode": "fault", "ct": ct, "target": target, "at": at}))
                at += 1
    # the same sweep, the failing call inside a re-keep of changed code that is then reverted
    for ct in ("full", "links_only"):
        for target in ("a", "eval"):
            at = 0
            NCALLS[0] = 1
            while at < max(NCALLS[0], 1) and at < 200:
                pr, fired = check_fault_then_revert(ct, target, at)
                if fired is not None:
                    n_fault += 1
                for k, w in pr:
                    res.violations.append(Violation(P, k, w, {"mode": "fault_revert", "ct": ct, "target": target, "at": at}))
                at += 1
    # one data directory under sequences of (commit type, code version): every sequence of the given length
    import itertools
    n_mixed = 0
    seen_mixed = set()
    L = 3 if tier == "quick" else 4
    for phases in itertools.product([(c, x) for c in ("full", "links_only", "none") for x in (0, 1)], repeat=L):
        for target in ("a", "b", "eval"):
            n_mixed += 1
            for k, w in check_mixed(list(phases), target):
                if k in seen_mixed:
                    continue   # one (shortest-first in product order) history per cause
                seen_mixed.add(k)
                res.violations.append(Violation(P, k, w, {"mode": "mixed", "phases": [list(p_) for p_ in phases], "target": target}))
    res.violations.sort(key=lambda v: len(v.replay.get("ops", [])))
    trans += n_fault + n_mixed
    res.coverage = dict(fault_points=n_fault, states=states, transitions=trans + n_leg, traces_validated_against_impl=trans + n_leg, per_commit_type=per,
                        legacy_cases=n_leg, exhaustive=False,
                        rule="per commit-type spelling: BFS over {keep str result, keep bytes result, eval with two nested keeps (one pickled, "
                             "3-segment path), edit tracked variable, load of 4 paths}; state = (variable, committed map, all files of the fake); "
                             "after every transition the data directory is compared with the model for that commit type; plus every sequence of "
                             "3 (quick) / 4 (thorough) phases (commit type, code version) on one data directory with a phase-aware oracle",
                        samples=[s for o in outs for s in o["samples"]][:4])
    res.assumptions = ["dbutils.fs is a dictionary-backed fake (cp incl. file: scheme, head, put, rm); real DBFS consistency is not modelled",
                       "documented commit types are 'none', 'links_only', 'full' (docstring of dds.set_store), any letter case"]
    return res


def replay(case):
    core.ensure_repo_dds()
    time.time = lambda: 1.6e9
    if case["mode"] == "fault":
        return [Violation(P, k, w, case) for k, w in check_fault(case["ct"], case["target"], case["at"])[0]]
    if case["mode"] == "legacy":
        return [Violation(P, k, w, case) for k, w in check_legacy(case["i"])]
    if case["mode"] == "fault_revert":
        return [Violation(P, k, w, case) for k, w in check_fault_then_revert(case["ct"], case["target"], case["at"])[0]]
    if case["mode"] == "mixed":
        return [Violation(P, k, w, case) for k, w in check_mixed([tuple(p_) for p_ in case["phases"]], case["target"])]
    s = build(case["ct"])
    try:
        for op in case["ops"]:
            pr = apply(s, tuple(op))
            if pr:
                return [Violation(P, k, w, case) for k, w in pr]
        return []
    finally:
        teardown(s)
