"""C01 - memoized evaluation returns exactly what plain execution would return.

Explicit-state exploration of edit / restart / evaluate histories over the generated program family; every
value returned by dds is compared with the value the dds-free reference (same files, stub dds) returns.
"""
from .. import pool
from ..core import Violation
from ..progmc import driver, placement

P = "C01"


def run(tier, seed):
    items = driver.plan(tier, P)
    res, outs = driver.run_plan(P, "model_checking", items, extra={
        "rule": "every program of the family (unit programs: one dependency kind x position x import form x syntactic context; "
                "composites: call-graph shapes over <= 4 kept nodes x node styles) x entry style x store; all histories of "
                "(variant of the edit cube, in-process edit | restart, evaluate) up to the depth of the tier; states = distinct "
                "(program, variant, entry) evaluated, transitions = evaluations, each compared with the reference run"})
    # where the code lives: the same programs as __main__ scripts (one interpreter per step) and IPython cells
    pitems = placement.placement_plan(tier)
    nsteps = 0
    for probs, n in pool.pmap(placement.placement_job, pitems, chunk=2):
        nsteps += n
        for prop, key, what, case in probs:
            if prop == P:
                res.violations.append(Violation(P, key, what, case))
    res.coverage["transitions"] += nsteps
    res.coverage["traces_validated_against_impl"] += nsteps
    res.coverage["placement_runs"] = {"programs_x_entries_x_placements": len(pitems), "steps": nsteps}
    res.assumptions = ["reference = the same generated files imported with a stub dds package (keep/eval just call)",
                       "an exception is accepted only as a coded refusal raised before any body ran"]
    return res


def replay(case):
    if case.get("mode") == "placement":
        probs, _ = placement.placement_job([(case["spec"], case["entry"], case["placement"])])[0]
        return [Violation(P, k, w, case) for pr, k, w, _ in probs if pr == P]
    return driver.replay(P, case)
