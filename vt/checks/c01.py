"""C01 - memoized evaluation returns exactly what plain execution would return.

Explicit-state exploration of edit / restart / evaluate histories over the generated program family; every
value returned by dds is compared with the value the dds-free reference (same files, stub dds) returns.
"""
from ..progmc import driver

P = "C01"


def run(tier, seed):
    items = driver.plan(tier, P)
    res, outs = driver.run_plan(P, "model_checking", items, extra={
        "rule": "every program of the family (unit programs: one dependency kind x position x import form x syntactic context; "
                "composites: call-graph shapes over <= 4 kept nodes x node styles) x entry style x store; all histories of "
                "(variant of the edit cube, in-process edit | restart, evaluate) up to the depth of the tier; states = distinct "
                "(program, variant, entry) evaluated, transitions = evaluations, each compared with the reference run"})
    res.assumptions = ["reference = the same generated files imported with a stub dds package (keep/eval just call)",
                       "an exception is accepted only as a coded refusal raised before any body ran"]
    return res


def replay(case):
    return driver.replay(P, case)
