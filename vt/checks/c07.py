"""C07 - processes sharing a local store never observe partial or foreign results.

Exhaustive exploration (iterated preemption bound, exact state keys) of the interleavings of the file-system
primitives of 2-3 virtual processes running the real dds code against one in-memory POSIX file system.
"""
import os
import shutil
import sys
import tempfile

from .. import core, pool
from ..core import Result, Violation

P = "C07"
_M = {}


def machine():
    if "m" not in _M:
        core.ensure_repo_dds()
        scratch = tempfile.mkdtemp(prefix="ddsvt_fsmc_")
        from ..fsmc import scenarios as SC, engine as E
        SC.write_modules(scratch)
        _M["m"] = E.Machine()
        import atexit
        atexit.register(shutil.rmtree, scratch, True)
    return _M["m"]


def scenarios():
    from ..fsmc import scenarios as SC
    from ..fsmc.vfs import VROOT
    B, kw = SC.body, SC.store_kw
    sc = {}
    sc["S1_cold_same_keep"] = dict(setup=[], procs=[B("keep", "fsm_a1", "f", "/a/x"), B("keep", "fsm_a1", "f", "/a/x")],
                                   final={"/a/x": ("fsm_a1", "f")})
    sc["S2_keep_vs_load_other"] = dict(setup=[B("keep", "fsm_a1", "f", "/a/x")],
                                       procs=[B("keep", "fsm_a1", "g", "/a/y"), B("load", None, None, "/a/x")],
                                       loads={1: ["f(1)"]}, final={"/a/x": ("fsm_a1", "f"), "/a/y": ("fsm_a1", "g")})
    sc["S3_rekeep_vs_load"] = dict(setup=[B("keep", "fsm_a1", "f", "/a/x")],
                                   procs=[B("keep", "fsm_a2", "f", "/a/x"), B("load", None, None, "/a/x")],
                                   loads={1: ["f(1)", "f(2)"]}, final={"/a/x": ("fsm_a2", "f")})
    sc["S4_same_new_dir"] = dict(setup=[], procs=[B("keep", "fsm_a1", "f", "/n/x"), B("keep", "fsm_b1", "h", "/n/y")],
                                 final={"/n/x": ("fsm_a1", "f"), "/n/y": ("fsm_b1", "h")})
    sc["S5_store_creation"] = dict(setup=[], procs=[B("create"), B("create")], final={})
    sc["S6_two_data_views"] = dict(setup=[], procs=[B("keep", "fsm_a1", "f", "/a/x", kw(data="d1")), B("keep", "fsm_a1", "f", "/a/x", kw(data="d2"))],
                                   final={"/a/x": ("fsm_a1", "f")}, final_kw=[kw(data="d1"), kw(data="d2")])
    sc["S7_two_keepers_one_loader"] = dict(setup=[B("keep", "fsm_a1", "f", "/a/x")],
                                           procs=[B("keep", "fsm_a2", "f", "/a/x"), B("keep", "fsm_a2", "f", "/a/x"), B("load", None, None, "/a/x")],
                                           loads={2: ["f(1)", "f(2)"]}, final={"/a/x": ("fsm_a2", "f")})
    sc["S8_default_store"] = dict(setup=[], tmpdir=True, procs=[B("keep", "fsm_a1", "f", "/a/x", {}, set_store=False), B("keep", "fsm_a1", "f", "/a/x", {}, set_store=False)],
                                  final={"/a/x": ("fsm_a1", "f")}, final_kw=[None])
    sc["S3c_rekeep_vs_load_cached"] = dict(setup=[B("keep", "fsm_a1", "f", "/a/x", kw(cache=2))],
                                           procs=[B("keep", "fsm_a2", "f", "/a/x", kw(cache=2)), B("load", None, None, "/a/x", kw(cache=2))],
                                           loads={1: ["f(1)", "f(2)"]}, final={"/a/x": ("fsm_a2", "f")})
    sc["S9_pickled_same_keep"] = dict(setup=[], procs=[B("keep", "fsm_a1", "p", "/a/p"), B("keep", "fsm_a1", "p", "/a/p")], final={"/a/p": ("fsm_a1", "p")})
    sc["S10_eval_vs_nested_load"] = dict(setup=[B("eval", "fsm_a1", "root")],
                                         procs=[B("eval", "fsm_a2", "root"), B("load", None, None, "/a/b/y")],
                                         loads={1: ["g(1)", "g(2)"]}, final={"/a/x": ("fsm_a2", "f"), "/a/b/y": ("fsm_a2", "g")})
    # an evaluation that only LOADS /a/x (and keeps /out/r) runs while another process re-keeps /a/x with changed code:
    # whatever the interleaving, /a/x must afterwards serve the value of the process that kept it
    sc["S12_reader_eval_vs_rekeep"] = dict(setup=[B("keep", "fsm_a1", "f", "/a/x")],
                                           procs=[B("eval", "fsm_r1", "root_r"), B("keep", "fsm_a2", "f", "/a/x")],
                                           allowed={0: ["r(f(1))", "r(f(2))"]}, final={"/a/x": ("fsm_a2", "f")}, final_norekeep=True,
                                           # afterwards the code of /a/x goes back to version 1: what the reader computed during the race
                                           # must not be served for it unless it was computed from version 1
                                           post=[(B("keep", "fsm_a1", "f", "/a/x"), "f(1)"), (B("eval", "fsm_r1", "root_r"), "r(f(1))")])
    # a long-lived (cache-wrapped) process loads /a/x twice while another process re-keeps it: a load that starts after the
    # keeper has finished returns the new value
    for nm, k in (("S13_two_loads_vs_rekeep", kw()), ("S13c_two_loads_vs_rekeep_cached", kw(cache=2))):
        sc[nm] = dict(setup=[B("keep", "fsm_a1", "f", "/a/x", k)],
                      procs=[B("load_twice", None, None, "/a/x", k), B("keep", "fsm_a2", "f", "/a/x", k)],
                      allowed={0: ["f(1)|f(1)", "f(1)|f(2)", "f(2)|f(2)"]}, second_load_after=(0, 1, "f(2)"),
                      final={"/a/x": ("fsm_a2", "f")})
    sc["S11_none_result"] = dict(setup=[], procs=[B("keep", "fsm_a1", "n", "/a/n"), B("keep", "fsm_a1", "n", "/a/n")], final={"/a/n": ("fsm_a1", "n")})
    return sc


def _expected(body):
    from ..fsmc import scenarios as SC
    d = body.desc
    return SC.expected(d["mod"], d["fn"])


def judge(name, sc, run, m):
    """-> list of (key, what) for one complete schedule"""
    from ..fsmc import scenarios as SC, engine as E
    probs = []
    for i, p in enumerate(run.procs):
        d = sc["procs"][i].desc
        role = f"p{i}:{d['kind']}"
        r = p.result
        if r[0] == "ok":
            val, log = r[1]
            if i in sc.get("allowed", {}):
                if val not in sc["allowed"][i]:
                    probs.append((f"C07|{name}|{d['kind']}|wrong_value={_abbr(val)}", f"{role} returned {val!r}, allowed {sc['allowed'][i]!r}"))
            elif d["kind"] in ("keep", "eval"):
                if val != _expected(sc["procs"][i]):
                    probs.append((f"C07|{name}|{d['kind']}|wrong_value={_abbr(val)}", f"{role} returned {val!r}, expected {_expected(sc['procs'][i])!r}"))
            elif d["kind"] == "load":
                if val not in sc["loads"][i]:
                    probs.append((f"C07|{name}|load|wrong_value={_abbr(val)}", f"{role} returned {val!r}, allowed {sc['loads'][i]!r}"))
        elif r[0] == "exc":
            if d["kind"] == "load" and r[1] == "DDSException" and not sc["setup"]:
                continue
            probs.append((f"C07|{name}|{d['kind']}|raises={r[1]}", f"{role} raised {r[1]}: {r[3]}"))
    # a file of a published blob (data or metadata, i.e. not a temporary name) is never taken away: between its removal and
    # its return another process would find a blob that was there a moment ago missing or half there
    for pid, op, args, res in run.trace:
        if op in ("unlink", "remove", "rmdir") and res and res[0] == "ok":
            pth = str(args[0])
            if "/blobs/" in pth and ".tmp-" not in pth:
                probs.append((f"C07|{name}|published_blob_file_removed|{'meta' if pth.endswith('.meta') else 'data'}",
                              f"p{pid} removed {pth.rsplit('/', 1)[-1][:20]}... of a published blob ({op})"))
                break
    if "second_load_after" in sc:
        li, ki, want = sc["second_load_after"]
        tr = run.trace
        mark = [j for j, (pid, op, args, res) in enumerate(tr) if pid == li and "second_load_starts" in str(args)]
        last_keeper = max([j for j, (pid, op, args, res) in enumerate(tr) if pid == ki] or [-1])
        r = run.procs[li].result
        if mark and r[0] == "ok" and mark[0] > last_keeper and not r[1][0].endswith("|" + want):
            probs.append((f"C07|{name}|load|stale_after_keeper_finished", f"the second load started after the keeper's last file-system operation but returned {r[1][0]!r}"))
    # after all processes finished a fresh process sees the right value everywhere and re-keeping executes nothing
    vfs = run.vfs
    for fkw in sc.get("final_kw", [SC.store_kw()]):
        for path, (mod, fn) in sc.get("final", {}).items():
            want = SC.expected(mod, fn)
            b = SC.body("load", None, None, path, fkw if fkw is not None else {}, set_store=fkw is not None)
            res, _, _ = E.run_sequential(m, vfs, b, pid=90)
            if res[0] != "ok" or res[1][0] != want:
                probs.append((f"C07|{name}|final_load|{'raises=' + res[1] if res[0] == 'exc' else 'wrong_value=' + _abbr(res[1][0])}",
                              f"after all processes finished, load({path}) in a fresh process gave {res!r}, expected {want!r}"))
                continue
            if fn != "root":
                b = SC.body("keep", mod, fn, path, fkw if fkw is not None else {}, set_store=fkw is not None)
                res, _, _ = E.run_sequential(m, vfs, b, pid=91)
                if res[0] != "ok" or res[1][0] != want or res[1][1]:
                    probs.append((f"C07|{name}|final_rekeep|{'raises=' + res[1] if res[0] == 'exc' else 'recomputed_or_wrong'}",
                                  f"after all processes finished, re-keeping {path} in a fresh process gave {res!r}"))
    for k, (b, want) in enumerate(sc.get("post", [])):
        res, _, _ = E.run_sequential(m, vfs, b, pid=92 + k)
        if res[0] != "ok" or res[1][0] != want:
            probs.append((f"C07|{name}|afterwards|{b.desc['kind']}|{'raises=' + res[1] if res[0] == 'exc' else 'wrong_value=' + _abbr(res[1][0])}",
                          f"after all processes finished, {b.desc['kind']} {b.desc.get('fn')} in a fresh process gave {res!r}, expected {want!r}"))
            break
    return probs


def _abbr(v):
    r = repr(v)
    return r if len(r) <= 16 else r[:12] + "..."


def run_scenario(name, bound, torn=True, validate=True, max_runs=60000, time_cap=None, only_schedule=None):
    from ..fsmc import engine as E, intercept as I, conform
    from ..fsmc.vfs import VFS, VROOT
    m = machine()
    sc = scenarios()[name]
    I.S.torn = torn
    vfs0 = VFS()
    old_tmp = tempfile.tempdir
    if sc.get("tmpdir"):
        vfs0.mkdir(VROOT + "/tmp")
        tempfile.tempdir = VROOT + "/tmp"
    try:
        for b in sc["setup"]:
            res, _, _ = E.run_sequential(m, vfs0, b, pid=80)
            if res[0] != "ok":
                raise core.HarnessError(f"setup of {name} failed: {res}")
        init_tree = vfs0.tree()
        found = {}
        outcomes = set()
        nval = [0]
        shared = [0]

        sample = []

        def on_complete(r):
            outcomes.add(tuple((p.result[0], repr(p.result[1])[:60]) for p in r.procs))
            if sum(r.preempt_cost) >= 1 and not sample:
                sample.append([f"p{pid}:{op}:{str(args[0]).rsplit('/', 1)[-1][:12]}" for pid, op, args, res in r.trace][:80])
            if validate:
                conform.replay(init_tree, r.trace, r.vfs.tree())
                nval[0] += 1
            for k, what in judge(name, sc, r, m):
                if k not in found:
                    found[k] = (what, list(r.choices))
        if only_schedule is not None:
            r = E.Run(m, vfs0, sc["procs"], list(only_schedule), set(), None).execute()
            on_complete(r)
            stats = dict(runs=1, complete=1, states=len(r.choices), transitions=len(r.choices), capped=None, max_preemptions=sum(r.preempt_cost), secs=0)
        else:
            stats = E.explore(m, vfs0, sc["procs"], bound=bound, on_complete=on_complete, max_runs=max_runs, time_cap=time_cap)
    finally:
        tempfile.tempdir = old_tmp
        I.S.torn = True
    stats.update(scenario=name, bound=bound, torn=torn, outcomes=len(outcomes), validated=nval[0], procs=len(sc["procs"]),
                 sample_schedule=sample[0] if sample else [])
    return stats, found


def _job(items):
    out = []
    for name, bound, torn in items:
        try:
            out.append(run_scenario(name, bound, torn))
        except core.HarnessError:
            raise
        except BaseException as e:  # noqa
            import traceback
            raise core.HarnessError(f"scenario {name}: {type(e).__name__}: {e}\n{traceback.format_exc()[-1500:]}")
    return out


def run(tier, seed):
    res = Result(P, "model_checking")
    names = list(scenarios())
    jobs = []
    for n in names:
        three = n.startswith("S7")
        if tier == "quick":
            jobs.append((n, 1 if three else 2, True))
        else:
            # deeper bounds where the scenario is small enough; the store-creation race is explored without any bound
            b = 2 if three else (None if n.startswith("S5") else (4 if n.startswith(("S1_", "S3_", "S2_")) else 3))
            jobs.append((n, b, True))
    outs = pool.pmap(_job, jobs, chunk=1)
    states = trans = val = 0
    per = []
    for stats, found in outs:
        states += stats["states"]
        trans += stats["transitions"]
        val += stats["validated"]
        per.append(stats)
        if stats["outcomes"] < 1 or (stats["procs"] > 1 and stats["max_preemptions"] < 1 and (stats["bound"] is None or stats["bound"] > 0)):
            raise core.HarnessError(f"vacuous exploration of {stats['scenario']}: {stats}")
        for k, (what, sched) in found.items():
            res.violations.append(Violation(P, k, f"[{stats['scenario']}] schedule {sched}: {what}",
                                            {"scenario": stats["scenario"], "schedule": sched, "torn": stats["torn"]}))
    res.coverage = dict(states=states, transitions=trans, traces_validated_against_impl=val, per_scenario=per,
                        schedules_completed=sum(s["complete"] for s in per), runs=sum(s["runs"] for s in per),
                        distinct_outcomes=sum(s["outcomes"] for s in per), preemption_bound=max((s["bound"] for s in per if s["bound"] is not None), default=0), unbounded_scenarios=[s["scenario"] for s in per if s["bound"] is None],
                        exhaustive=all(s["capped"] is None for s in per),
                        rule="per scenario: DFS over all schedules of the processes' file-system primitives (stat, mkdir, open, each half of each write, close, "
                             "unlink, symlink, rename, readlink ...) with at most `bound` preemptions, pruned on exact state keys (file-system snapshot + each "
                             "process's operation/result history + budget used); every complete schedule's merged trace is replayed against a real directory",
                        samples=[{"scenario": s_["scenario"], "complete_schedules": s_["complete"], "one_schedule_with_a_preemption": s_.pop("sample_schedule")}
                                 for s_ in per[:2]])
    for s_ in per:
        s_.pop("sample_schedule", None)
    res.assumptions = ["processes share nothing but the directory; a process is deterministic given the results of its file-system operations",
                       "advisory file locks are not modelled (a change that introduces them is reported as a harness error, not as a pass)"]
    return res


def replay(case):
    stats, found = run_scenario(case["scenario"], None, case.get("torn", True), validate=False, only_schedule=case["schedule"])
    return [Violation(P, k, what, case) for k, (what, _) in found.items()]
