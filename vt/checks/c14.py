"""C14 - exactly the accepted modules are tracked.

Configurations: package depth 2-6 x accepted prefix at every depth x number of accepted packages x import
form. In each one the signature of a kept node is observed before and after editing a function body / a tracked
variable on the accepted side (must change) and on the non-accepted side (must not change), and a data function
that lives on the non-accepted side is called (must be refused with an error naming its module, nothing run).
"""
import importlib

from .. import core, pool
from ..core import Result, Violation
from ..progmc import jobs as J, spec as S
from ..progmc.world import Prog

P = "C14"
COUNTS = [1, 2, 3, 5, 10, 40]
FORMS = ["from", "attr", "import_as", "ext_facade", "local_import_full"]


def make_spec(d, form):
    mid = ".".join(f"p{i}" for i in range(1, d - 1))
    pre = (mid + ".") if mid else ""
    lib, main = pre + "lib", pre + "main"
    funcs = [
        {"name": "h", "module": lib, "params": [], "body": [{"k": "read", "var": "V"}]},
        {"name": "K", "module": main, "params": [], "body": [{"k": "call", "fn": "h", "form": form}, {"k": "ext", "fn": "xf"}, {"k": "ext", "var": "XV", "form": "attr"}]},
        {"name": "root", "module": main, "params": [], "body": [{"k": "keep", "path": "/u/k", "fn": "K", "args": []}]},
        # an accepted kept function that calls the data function of the non-accepted package
        {"name": "KX", "module": main, "params": [], "body": [{"k": "ext", "fn": "xd"}]},
        {"name": "rootx", "module": main, "params": [], "body": [{"k": "keep", "path": "/u/kx", "fn": "KX", "args": []}]},
        # ... and the path of that data function is also kept, by an accepted function, in the same evaluation
        {"name": "G", "module": main, "params": [], "body": []},
        {"name": "KXC", "module": main, "params": [], "body": [{"k": "ext", "fn": "xd"}, {"k": "keep", "path": "/x/d", "fn": "G", "args": []}]},
        {"name": "rootxc", "module": main, "params": [], "body": [{"k": "keep", "path": "/u/kxc", "fn": "KXC", "args": []}]},
    ]
    ext = {"reexports": [[lib, "h"]] if form == "ext_facade" else [],
           "funcs": [{"name": "xf", "module": "util", "params": [], "body": []},
                     {"name": "xd", "module": "util", "params": [], "datafn": "/x/d", "body": []}],
           "vars": [{"name": "XV", "module": "util", "values": ["1", "2"]}]}
    return {"id": f"ACC/d{d}/{form}", "key": f"depth={d}|form={form}", "modules": [lib, main],
            "vars": [{"name": "V", "module": lib, "values": ["1", "2"]}], "funcs": funcs, "ext": ext,
            "entries": {"eval_root": {"kind": "eval", "fn": "root"}, "eval_rootx": {"kind": "eval", "fn": "rootx"}, "eval_rootxc": {"kind": "eval", "fn": "rootxc"}},
            "eps": [{"id": "tag:h", "kind": "body_tag", "n": 2}, {"id": "V", "kind": "var_value", "n": 2},
                    {"id": "tag:xf", "kind": "ext_body", "n": 2}, {"id": "XV", "kind": "ext_var", "n": 2}]}


def api_ctx():
    import dds._api as api
    return api._eval_ctx


def one(world, d, k, n_accept, form, order="plain"):
    spec = make_spec(d, form)
    probs = []
    case = {"d": d, "k": k, "n": n_accept, "form": form, "order": order}
    lib_accepted = k < d
    tag = f"depth={d}|prefix={k}|{'few' if n_accept <= 3 else 'many'}_accepted" + ("" if order == "plain" else f"|order={order}")

    def bad(sym, what):
        probs.append((f"C14|{sym}|{tag}", f"[module depth {d}, accepted prefix of depth {k}, {n_accept} accepted package(s), {form}] {what}", case))

    prog = Prog(world, spec, "memory")
    parts = ([prog.pkg] + [f"p{i}" for i in range(1, d - 1)] + ["main"])[:k]
    prog.accept_suffix = "." + ".".join(parts[1:]) if len(parts) > 1 else ""
    prog.extra_accept = [prog.pkg + "x"] + [f"zzpad{i}" for i in range(n_accept - 2)] if n_accept > 1 else []
    full = [prog.pkg] + [f"p{i}" for i in range(1, d - 1)] + ["main"]
    if order == "child_first" and k < d:
        prog.accept_first = [".".join(full[:k + 1])]       # a sub-package of the prefix is accepted before the prefix itself
    elif order == "child_last" and k < d:
        prog.extra_accept = prog.extra_accept + [".".join(full[:k + 1])]
    elif order == "pad_first":
        prog.accept_first, prog.extra_accept = prog.extra_accept, []
    try:
        base = S.v0(spec)
        res = {}
        for name, edit in (("v0", {}), ("h_body", {"tag:h": 1}), ("V", {"V": 1}), ("ext_body", {"tag:xf": 1}), ("ext_var", {"XV": 1})):
            prog.persist = None  # empty store for every variant: only signatures are compared
            prog.goto(dict(base, **edit), "restart")
            real, ref = prog.run("eval_root")
            res[name] = (real, ref)
        r0 = res["v0"][0]
        if r0.status != "ok":
            bad(f"accepted_refused|{r0.exc}[{r0.code}]", f"evaluation of a function in the accepted module raised {r0.exc} {r0.code}: {str(r0.excobj)[:120]}")
            return probs
        s0 = r0.sigs.get("/u/k")
        for name in ("h_body", "V"):
            r, ref = res[name]
            if r.status != "ok":
                bad(f"accepted_refused|{r.exc}[{r.code}]", f"after editing {name}: {r.exc} {str(r.excobj)[:100]}")
                continue
            changed = r.sigs.get("/u/k") != s0
            if lib_accepted and not changed:
                bad(f"accepted_edit_ignored|{name}", f"editing {name} in the accepted module {spec['modules'][0]} did not change the signature")
            if lib_accepted and r.value != ref.value:
                bad(f"accepted_edit_stale|{name}", f"returned {r.value!r}, plain execution {ref.value!r}")
            if not lib_accepted and changed:
                bad(f"non_accepted_edit_tracked|{name}", f"editing {name} in the non-accepted module {spec['modules'][0]} changed the signature")
        for name in ("ext_body", "ext_var"):
            r, ref = res[name]
            if r.status != "ok":
                bad(f"raises_after_ext_edit|{r.exc}", f"{r.exc} {str(r.excobj)[:100]}")
            elif r.sigs.get("/u/k") != s0:
                bad(f"non_accepted_edit_tracked|{name}", f"editing {name} in the non-accepted package changed the signature")
        # data function on the non-accepted side
        prog.activate()
        xm = importlib.import_module(prog.xpkg + ".util")
        pl = world.pipelog
        for attempt in ("", "|retry"):   # the refusal does not wear off when the call is repeated (a notebook cell run again)
            pl.cur = []
            try:
                v = xm.xd()
                bad("non_accepted_datafn_evaluated" + attempt, f"data function of the non-accepted module {prog.xpkg}.util was evaluated untracked and returned {v!r}"
                    + (" when called a second time after the refusal" if attempt else ""))
            except BaseException as e:  # noqa
                if not core.is_dds_exc(e):
                    bad(f"non_accepted_datafn_error{attempt}|{type(e).__name__}", f"raised {type(e).__name__}: {str(e)[:100]} instead of a DDS error")
                elif prog.xpkg not in str(e):
                    bad("non_accepted_datafn_unnamed" + attempt, f"the error does not name the module: {str(e)[:160]}")
                if pl.cur:
                    bad("non_accepted_datafn_ran" + attempt, f"user code ran: {pl.cur}")
        # a lambda kept (at top level) by a function of the non-accepted module: a data function without a name
        import os
        import sys
        with open(os.path.join(os.path.dirname(xm.__file__), "lamk.py"), "w") as f:
            f.write("import dds\nRAN = []\n\n\ndef helper():\n    RAN.append(1)\n    return 1\n\n\n"
                    "def kept_lambda():\n    return dds.keep('/x/lam', lambda: helper() * 10)\n")
        importlib.invalidate_caches()
        lm = importlib.import_module(prog.xpkg + ".lamk")
        try:
            v = lm.kept_lambda()
            bad("non_accepted_datafn_evaluated|lambda", f"a lambda of the non-accepted module {prog.xpkg}.lamk given to dds.keep was evaluated untracked and returned {v!r}")
        except BaseException as e:  # noqa
            if not core.is_dds_exc(e):
                bad(f"non_accepted_datafn_error|lambda|{type(e).__name__}", f"raised {type(e).__name__}: {str(e)[:100]} instead of a DDS error")
            elif prog.xpkg not in str(e):
                bad("non_accepted_datafn_unnamed|lambda", f"the error does not name the module: {str(e)[:160]}")
            if lm.RAN:
                bad("non_accepted_datafn_ran|lambda", "user code ran")
        finally:
            sys.modules.pop(prog.xpkg + ".lamk", None)
        if api_ctx() is not None:
            bad("context_leaked|lambda", "dds still believes an evaluation is running after the refusal")
        # the same data function reached from inside an accepted pipeline
        rx, refx = prog.run("eval_rootx")
        if rx.status == "ok":
            bad("non_accepted_datafn_evaluated|nested", f"data function of the non-accepted module called by an accepted kept function was evaluated untracked: {rx.value!r}")
        else:
            if rx.status != "dds":
                bad(f"non_accepted_datafn_error|nested|{rx.exc}", f"called by an accepted kept function: raised {rx.exc}: {str(rx.excobj)[:100]} instead of a DDS error")
            elif prog.xpkg not in str(rx.excobj):
                bad("non_accepted_datafn_unnamed|nested", f"the error does not name the module: {str(rx.excobj)[:160]}")
            if "xd" in rx.log:
                bad("non_accepted_datafn_ran|nested", f"the data function ran: {rx.log}")
        rc, refc = prog.run("eval_rootxc")
        if "xd" in rc.log:
            bad("non_accepted_datafn_ran|path_also_kept", f"the data function of the non-accepted module ran untracked (its path is also kept by an accepted function): {rc.short()!r}, log {rc.log}")
        elif rc.status == "ok":
            bad("non_accepted_datafn_evaluated|path_also_kept", f"accepted: {rc.value!r}")
        import dds._api as api
        if api._eval_ctx is not None:
            bad("context_leaked", "dds still believes an evaluation is running after the refusal")
    finally:
        prog.cleanup()
    return probs


def late(world, d, form):
    """a module is accepted AFTER an evaluation of the same process has met it as a non-accepted one (notebook flow:
    run, see the refusal, accept, run again): from then on it is tracked exactly as if it had been accepted from the start"""
    import dds
    spec = make_spec(d, form)
    probs = []
    case = {"d": d, "k": d, "n": 1, "form": form, "order": "late"}
    tag = f"depth={d}|late_acceptance"

    def bad(sym, what):
        probs.append((f"C14|{sym}|{tag}", f"[module depth {d}, only the evaluated module accepted at first, {form}] {what}", case))

    prog = Prog(world, spec, "memory")
    full = [prog.pkg] + [f"p{i}" for i in range(1, d - 1)]
    prog.accept_suffix = "." + ".".join((full + ["main"])[1:])
    libfull = ".".join(full + ["lib"])
    try:
        base = S.v0(spec)
        prog.goto(base, "restart")
        r1, _ = prog.run("eval_root")
        if r1.status != "ok":
            return probs  # reported by the plain configurations
        xm = importlib.import_module(prog.xpkg + ".util")
        refused = False
        try:
            xm.xd()
        except BaseException as e:  # noqa
            refused = core.is_dds_exc(e)
        # ---- now accept both
        dds.accept_module(libfull)
        dds.accept_module(prog.xpkg)
        prog.extra_accept = prog.extra_accept + [libfull, prog.xpkg]
        r2, ref2 = prog.run("eval_root")
        prog.goto(dict(base, **{"tag:h": 1}), "inproc")
        r3, ref3 = prog.run("eval_root")
        try:
            v = xm.xd()
            if v != "xd#0()":
                bad("late_datafn_wrong", f"the data function of the module accepted late returned {v!r}")
        except BaseException as e:  # noqa
            if refused:
                bad(f"late_datafn_still_refused|{type(e).__name__}", f"data function still refused after dds.accept_module: {str(e)[:120]}")
        # ---- twin: accepted from the start
        prog.persist = None
        prog.goto(base, "restart")
        r4, _ = prog.run("eval_root")
        if r2.status != "ok" or r3.status != "ok" or r4.status != "ok":
            bad(f"late_refused|{[r.exc for r in (r2, r3, r4) if r.status != 'ok'][0]}", "an evaluation after the late acceptance raised")
            return probs
        if r2.sigs.get("/u/k") == r1.sigs.get("/u/k"):
            bad("late_acceptance_ignored", "accepting the module after a first evaluation did not change the signature: the module is still treated as non-accepted")
        elif r2.sigs.get("/u/k") != r4.sigs.get("/u/k"):
            bad("late_acceptance_differs", "the signature after a late acceptance differs from the one obtained when the module is accepted from the start")
        if r3.sigs.get("/u/k") == r2.sigs.get("/u/k"):
            bad("late_edit_ignored", "editing a function of the module accepted late did not change the signature")
        if r3.value != ref3.value:
            bad("late_edit_stale", f"returned {r3.value!r}, plain execution {ref3.value!r}")
    finally:
        prog.cleanup()
    return probs


def configs(tier):
    out = []
    depths = [2, 3, 4, 5, 6] if tier != "quick" else [2, 3, 4, 5, 6]
    for d in depths:
        for k in range(1, d + 1):
            for n in (COUNTS if tier != "quick" else [1, 3, 10]):
                for form in (FORMS if (tier != "quick" or n == 1) else FORMS[:1]):
                    out.append((d, k, n, form, "plain"))
                if k < d and (tier != "quick" or n == 3):
                    for order in ("child_first", "child_last", "pad_first"):
                        out.append((d, k, n, "from", order))
        for form in (FORMS if tier != "quick" else FORMS[:2]):
            out.append((d, d, 1, form, "late"))
    return out


def _job(items):
    w = J.world()
    out = []
    for d, k, n, form, order in items:
        try:
            out.append(late(w, d, form) if order == "late" else one(w, d, k, n, form, order))
        except BaseException as e:  # noqa
            import traceback
            raise core.HarnessError(f"d={d} k={k} n={n} {form} {order}: {type(e).__name__} {e}\n{traceback.format_exc()[-1500:]}")
    return out


def run(tier, seed):
    res = Result(P, "exploration")
    cfg = configs(tier)
    outs = pool.pmap(_job, cfg)
    for probs in outs:
        for key, what, case in probs:
            res.violations.append(Violation(P, key, what, case))
    res.violations.sort(key=lambda v: (v.replay["d"], v.replay["k"], v.replay["n"]))
    res.coverage = dict(evaluations=len(cfg) * 6, distinct_nontrivial=len(cfg), exhaustive=True,
                        rule="module depth 2..6 x accepted prefix at every depth 1..d (prefix = the module itself puts its sibling on the non-accepted side) x "
                             "number of accepted packages (incl. a sibling name sharing a string prefix) x import form x acceptance order (sub-package before / after its parent, padding first); per configuration: 5 variants evaluated "
                             "on empty stores (base, accepted body edit, accepted variable edit, non-accepted body edit, non-accepted variable edit) + "
                             "a call of a data function of the non-accepted package; plus, per depth and form, a late acceptance (evaluate, accept the sibling module and the other package, evaluate, edit, compare with a process that accepted them from the start); distinct_nontrivial = configurations",
                        samples=[dict(zip(("depth", "accepted_prefix_depth", "accepted_packages", "import_form", "acceptance_order"), cfg[0])),
                                 dict(zip(("depth", "accepted_prefix_depth", "accepted_packages", "import_form", "acceptance_order"), cfg[-1]))])
    res.assumptions = ["'naming the module' = the message contains the non-accepted package's name", "depth-1 (top-level single-file) modules are not generated"]
    return res


def replay(case):
    w = J.world()
    if case.get("order") == "late":
        return [Violation(P, k, what, case) for k, what, _ in late(w, case["d"], case["form"])]
    return [Violation(P, k, what, case) for k, what, _ in one(w, case["d"], case["k"], case["n"], case["form"], case.get("order", "plain"))]
