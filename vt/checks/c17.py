"""C17 - results are read back with the codec that wrote them, text and bytes verbatim.

BFS over sequences of {store v, fetch v, register codec, restart} on the local store and the DBFS store
(fake dbutils): user codecs tag their payload and log every decode, so a blob read with another codec than
the one recorded at write time is visible. str/bytes blob files (and the file under the data dir) are
compared byte for byte.
"""
import json
import os
import shutil
import tempfile
import time
from collections import OrderedDict

from .. import core, pool
from ..core import Result, Violation
from ..seqmc import bfs
from ..seqmc.fake_dbutils import FakeDbutils
from ..seqmc.models import Obj, call

P = "C17"
DECODES = []  # (ref) appended by user codecs on every decode


class T:  # a user type with user codecs
    def __init__(self, v):
        self.v = v

    def __eq__(self, o):
        return type(o) is T and o.v == self.v

    def __repr__(self):
        return f"T({self.v!r})"


class TS(T):  # a subclass of the type the user codecs are registered for
    def __init__(self, v, extra):
        super().__init__(v)
        self.extra = extra

    def __eq__(self, o):
        return type(o) is TS and o.v == self.v and o.extra == self.extra

    def __repr__(self):
        return f"TS({self.v!r}, {self.extra!r})"


import enum


class Mode(str, enum.Enum):  # a str subclass: not text, must come back as the enum member
    FAST = "fast"


class MyBytes(bytes):
    pass


class MyDict(dict):
    pass


class Celsius:
    class Reading:   # two nested classes of one module that share their __name__
        def __init__(self, v):
            self.v = v

        def __eq__(self, o):
            return type(o) is type(self) and o.v == self.v

        def __repr__(self):
            return f"{type(self).__qualname__}({self.v!r})"


class Survey:
    class Reading(Celsius.Reading):
        __eq__ = Celsius.Reading.__eq__


def user_codecs():
    from dds.structures import FileCodecProtocol, CodecProtocol, ProtocolRef, SupportedType

    tname = SupportedType(T.__module__ + "." + T.__name__)

    class TFile1(FileCodecProtocol):
        R = "user.t1"

        def ref(self):
            return ProtocolRef(self.R)

        def handled_types(self):
            return [tname]

        def serialize_into(self, blob, loc):
            with open(str(loc), "wb") as f:
                f.write(self.R.encode() + b":" + repr(blob.v).encode())

        def deserialize_from(self, loc):
            with open(str(loc), "rb") as f:
                d = f.read()
            DECODES.append(self.R)
            assert d.startswith(self.R.encode() + b":"), ("payload of another codec", d[:20])
            return T(eval(d[len(self.R) + 1:].decode()))

    class TFile2(TFile1):
        R = "user.t2"

    class TFileDup(TFile1):
        """a file codec for T whose reference is already taken by the built-in pickle codec (a subclass that forgot ref())"""
        R = "local.pickle"

    class TMem(CodecProtocol):
        """A CodecProtocol codec writes to the generic location itself."""
        R = "user.tc"

        def ref(self):
            return ProtocolRef(self.R)

        def handled_types(self):
            return [tname]

        def serialize_into(self, blob, loc):
            if str(loc).startswith("dbfs:"):
                raise NotImplementedError("fake has no generic location")
            with open(str(loc), "wb") as f:
                f.write(self.R.encode() + b":" + repr(blob.v).encode())

        def deserialize_from(self, loc):
            with open(str(loc), "rb") as f:
                d = f.read()
            DECODES.append(self.R)
            assert d.startswith(self.R.encode() + b":"), ("payload of another codec", d[:20])
            return T(eval(d[len(self.R) + 1:].decode()))

    class StrFile(FileCodecProtocol):
        R = "user.str"

        def ref(self):
            return ProtocolRef(self.R)

        def handled_types(self):
            return [SupportedType("str")]

        def serialize_into(self, blob, loc):
            with open(str(loc), "wb") as f:
                f.write(b"USERSTR:" + blob.encode("utf-16"))

        def deserialize_from(self, loc):
            with open(str(loc), "rb") as f:
                d = f.read()
            DECODES.append(self.R)
            assert d.startswith(b"USERSTR:"), ("payload of another codec", d[:20])
            return d[8:].decode("utf-16")

    from dds.structures_utils import SupportedTypeUtils as STU

    class CelsiusFile(FileCodecProtocol):
        R = "user.celsius"

        def ref(self):
            return ProtocolRef(self.R)

        def handled_types(self):
            return [STU.from_type(Celsius.Reading)]

        def serialize_into(self, blob, loc):
            with open(str(loc), "wb") as f:
                f.write(self.R.encode() + b":" + repr(blob.v).encode())

        def deserialize_from(self, loc):
            with open(str(loc), "rb") as f:
                d = f.read()
            DECODES.append(self.R)
            return Celsius.Reading(eval(d[len(self.R) + 1:].decode()))

    return {"t1": TFile1, "t2": TFile2, "tc": TMem, "str": StrFile, "cel": CelsiusFile, "dup": TFileDup}


def values():
    import pandas as pd
    big = ("0123456789abcdef" * 65536)
    return OrderedDict([
        ("s_empty", ""), ("s_nl", "\n"), ("s_anl", "a\n"), ("s_sp", " a "), ("s_ascii", "hello world"), ("s_crlf", "a\r\nb\r"),
        ("s_uni", "héllo 世界 \U0001f600"), ("s_big", big), ("s_bom", "\ufeffid,name\n1,a\n"),
        ("b_empty", b""), ("b_bin", b"\x00\xff\r\n\x1a"), ("b_big", big.encode() + b"\x00"), ("ba", bytearray(b"\x01\x02")),
        ("none", None), ("int", 42), ("dict", {"a": [1, 2], "b": None}), ("obj", Obj("o")),
        ("df", pd.DataFrame({"x": [1, 2], "y": ["a", "b"]})), ("t", T(7)), ("t2", T("s")),
        # values their dedicated codec cannot write (a file name decoded with surrogateescape; a column of mixed types): the
        # store may refuse them, loudly - what it accepts must read back equal
        ("s_surr", "caf\udce9.txt"), ("df_mixed", pd.DataFrame({"x": [1, "a"]})),
        ("cel", Celsius.Reading(21)), ("sur", Survey.Reading(3)),
        ("t_sub", TS(1, "more")), ("str_enum", Mode.FAST), ("bytes_sub", MyBytes(b"raw")), ("dict_sub", MyDict(a=1)),
    ])


def same(a, b):
    import pandas as pd
    if isinstance(a, pd.DataFrame) or isinstance(b, pd.DataFrame):
        return isinstance(a, pd.DataFrame) and isinstance(b, pd.DataFrame) and a.equals(b)
    if isinstance(b, bytearray):  # documented as stored through the bytes codec
        return isinstance(a, (bytes, bytearray)) and bytes(a) == bytes(b)
    return type(a) is type(b) and a == b


class Sys:
    pass


def _open(s):
    import dds
    import dds._api as api
    import dds.codec as codec
    if s.kind == "local":
        codec._registry = None  # a fresh process starts with the default registry
        dds.set_store("local", internal_dir=os.path.join(s.root, "i"), data_dir=os.path.join(s.root, "d"))
    else:
        dds.set_store("dbfs", internal_dir="dbfs:/int", data_dir="dbfs:/data", dbutils=s.db)
    st = api._store()
    api._store_var = None
    return st


def build(kind):
    s = Sys()
    s.kind = kind
    s.root = tempfile.mkdtemp(prefix="ddsvt_c17_")
    s.db = FakeDbutils() if kind == "dbfs" else None
    s.store = _open(s)
    s.registered = []   # order of registration
    s.written = {}      # value name -> ref recorded at write time (read from the meta record)
    s.codecs = user_codecs()
    s.vals = values()
    return s


def teardown(s):
    shutil.rmtree(s.root, ignore_errors=True)
    import dds.codec as codec
    codec._registry = None


def _h(name):
    import hashlib
    return hashlib.sha256(name.encode()).hexdigest()


def _meta_ref(s, name):
    if s.kind == "local":
        p = os.path.join(s.root, "i", "blobs", _h(name) + ".meta")
        return json.load(open(p))["protocol"] if os.path.exists(p) else None
    d = s.db.fs.files.get("dbfs:/int/blobs/" + _h(name) + ".meta")
    return json.loads(d)["protocol"] if d else None


def _blob_bytes(s, name):
    if s.kind == "local":
        return open(os.path.join(s.root, "i", "blobs", _h(name)), "rb").read()
    return s.db.fs.files.get("dbfs:/int/blobs/" + _h(name))


def _register(s, cname):
    reg = s.store.codec_registry()
    c = s.codecs[cname]()
    if cname == "tc":
        reg.add_codec(c)
    else:
        reg.add_file_codec(c)


def apply(s, op):
    probs = []

    def bad(tag, what):
        probs.append((f"C17|{s.kind}|{tag}", f"{op}: {what}"))

    if op[0] == "register":
        if op[1] in s.registered:
            return probs
        if s.kind == "dbfs" and op[1] in ("tc", "dup"):
            return probs
        r = call(lambda: _register(s, op[1]))
        s.registered.append(op[1])
        if r[0] != "ok":
            bad(f"register|{r[0]}:{r[1]}", f"registration failed {r}")
    elif op[0] == "restart":
        s.store = _open(s)
        for c in reversed(s.registered):  # the other process registers the same codecs in another order
            _register(s, c)
        s.registered = list(reversed(s.registered))
    elif op[0] == "restart_bare":
        # another process that has not registered any user codec
        s.store = _open(s)
        s.registered = []
    elif op[0] == "store":
        name = op[1]
        v = s.vals[name]
        if isinstance(v, T) and not any(c in s.registered for c in ("t1", "t2", "tc")) and False:
            return probs
        r = call(lambda: s.store.store_blob(_h(name), v, None))
        if r[0] != "ok" and name in MAY_REFUSE:
            hb = call(lambda: s.store.has_blob(_h(name)))
            if hb != ("ok", False) and name not in s.written:
                bad(f"refused_but_present|{type(v).__name__}", f"store_blob raised {r} but has_blob says {hb}")
            return probs
        if r[0] != "ok":
            bad(f"store|{type(v).__name__}|{r[0]}:{r[1]}", f"store_blob failed: {r}")
            return probs
        ref = _meta_ref(s, name)
        s.written[name] = ref
        raw = _blob_bytes(s, name)
        if type(v) is str and ref in ("local.string",):
            if raw != v.encode("utf-8", "surrogateescape"):
                bad("verbatim|str", f"blob file of {name} is not the UTF-8 text: {raw[:20]!r}...")
        if type(v) in (bytes, bytearray) and ref in ("local.bytes",):
            if raw != bytes(v):
                bad("verbatim|bytes", f"blob file of {name} is not the raw bytes: {raw[:20]!r}...")
        if type(v) in (str, bytes) and ref and ref.startswith("local.") and ref not in ("local.string", "local.bytes"):
            bad(f"verbatim|{type(v).__name__}|written_by={ref}", f"{name} written by {ref}")
        # the committed path exposes the same bytes (local: file under the data directory)
        if type(v) in (str, bytes) and s.kind == "local" and ref in ("local.string", "local.bytes"):
            rs = call(lambda: s.store.sync_paths(OrderedDict([("/out/" + name, _h(name))])))
            fp = os.path.join(s.root, "d", "out", name)
            want = v.encode("utf-8", "surrogateescape") if isinstance(v, str) else bytes(v)
            if rs[0] != "ok" or not os.path.exists(fp) or open(fp, "rb").read() != want:
                bad(f"verbatim|datadir|{type(v).__name__}", f"file under the data dir for {name} differs / missing ({rs})")
    elif op[0] == "fetch":
        name = op[1]
        if name not in s.written:
            return probs
        v = s.vals[name]
        n0 = len(DECODES)
        r = call(lambda: s.store.fetch_blob(_h(name)))
        wref = s.written[name]
        if wref and wref.startswith("user.") and REFNAME[wref] not in s.registered:
            # the codec that wrote the blob is not registered in this process: a loud refusal, never another codec's reading
            if not (r[0] == "dds" or (r[0] == "ok" and same(r[1], v))):
                got = f"{type(r[1]).__name__}" if r[0] == "ok" else f"{r[0]}:{r[1]}"
                bad(f"fetch|codec_not_registered|written_by={wref}|got={got}",
                    f"stored {name}={_short(v)} with {wref}, which this process has not registered; fetch -> {_short(r[1]) if r[0] == 'ok' else r}")
            return probs
        if r[0] != "ok" or not same(r[1], v):
            got = f"{type(r[1]).__name__}" if r[0] == "ok" else f"{r[0]}:{r[1]}"
            bad(f"fetch|{type(v).__name__}|written_by={s.written[name]}|got={got}",
                f"stored {name}={_short(v)} with {s.written[name]}, regs={s.registered}; fetch -> {_short(r[1]) if r[0] == 'ok' else r}")
        else:
            used = DECODES[n0:]
            if s.written[name] and s.written[name].startswith("user.") and used != [s.written[name]]:
                bad(f"fetch|decoded_by_other|written_by={s.written[name]}", f"decoded by {used}")
            if s.written[name] and not s.written[name].startswith("user.") and used:
                bad(f"fetch|decoded_by_other|written_by={s.written[name]}", f"decoded by {used}")
    return probs


def _short(v):
    r = repr(v)
    return r if len(r) < 60 else r[:30] + f"...({len(r)})"


def key(s):
    import hashlib
    phys = tuple(sorted((n, hashlib.sha1(_blob_bytes(s, n) or b"").hexdigest()) for n in s.written))
    return (tuple(sorted(s.written.items(), key=str)), tuple(s.registered), phys)


MAY_REFUSE = {"s_surr", "df_mixed"}
REFNAME = {"user.t1": "t1", "user.t2": "t2", "user.tc": "tc", "user.str": "str", "user.celsius": "cel"}
WINDOWS = [
    ["s_surr", "df_mixed", "s_ascii"], ["cel", "sur", "t"],
    ["s_ascii", "t", "b_bin"], ["s_empty", "none", "t2"], ["s_uni", "dict", "df"], ["s_big", "ba", "int"],
    ["s_nl", "b_empty", "obj"], ["s_anl", "s_sp", "b_big"], ["s_crlf", "t", "s_ascii"],
    ["t_sub", "str_enum", "t"], ["bytes_sub", "dict_sub", "s_ascii"], ["t", "obj", "t2"], ["s_bom", "t", "s_uni"],
]


def alphabet(window, kind):
    ops = [("store", n) for n in window] + [("fetch", n) for n in window]
    regs = ("dup", "t1") if window[:2] == ["t", "obj"] else ("t1", "t2", "str", "tc") if "cel" not in window else ("cel", "t1")
    ops += [("register", c) for c in regs] + [("restart",)]
    if window in (["s_ascii", "t", "b_bin"], ["s_bom", "t", "s_uni"]):
        ops.append(("restart_bare",))
    return ops


def _job(items):
    core.ensure_repo_dds()
    time.time = lambda: 1.6e9
    out = []
    for kind, window, depth in items:
        st = bfs.explore(alphabet(window, kind), lambda: build(kind), apply, key, depth, teardown=teardown)
        out.append(dict(kind=kind, window=window, depth=depth, states=st.states, transitions=st.transitions, closed=st.closed,
                        samples=st.samples[:2], problems=[(list(h), list(o), p) for h, o, p in st.problems[:300]]))
    return out


def run(tier, seed):
    res = Result(P, "model_checking")
    depth = 4 if tier == "quick" else 6
    jobs = [(k, w, depth) for k in ("local", "dbfs") for w in WINDOWS]
    outs = pool.pmap(_job, jobs, chunk=1)
    states = trans = 0
    per = []
    for o in outs:
        states += o["states"]
        trans += o["transitions"]
        per.append({k: o[k] for k in ("kind", "window", "depth", "states", "transitions", "closed")})
        for h, op, p in o["problems"]:
            res.violations.append(Violation(P, p[0], f"[{o['kind']}] after {h}: {p[1]}",
                                            {"mode": "seq", "kind": o["kind"], "ops": h + [op]}))
    res.violations.sort(key=lambda v: len(v.replay["ops"]))
    res.coverage = dict(states=states, transitions=trans, traces_validated_against_impl=trans, per_window=per,
                        exhaustive=all(p["closed"] for p in per),
                        rule="BFS over {store, fetch} of a 3-value window x {register t1, t2 (second codec for the same type), str codec, a file codec reusing the built-in pickle reference, "
                             "CodecProtocol codec} x restart (fresh registry, same codecs registered in reverse order); 19 values: "
                             "str (empty, newline, CRLF, non-ASCII, 1 MiB), bytes, bytearray, None, int, dict, object, DataFrame, user type; "
                             "state = (value -> codec ref recorded in the meta record, registration order)",
                        samples=[s for o in outs for s in o["samples"]][:5])
    res.assumptions = ["the codec reference found in the blob's meta record right after store_blob is the reference for 'the codec that wrote it'",
                       "a restart registers the same user codecs (in another order); reading a blob whose codec is not registered at all is out of scope"]
    return res


def replay(case):
    core.ensure_repo_dds()
    time.time = lambda: 1.6e9
    s = build(case["kind"])
    try:
        for op in case["ops"]:
            pr = apply(s, tuple(op))
            if pr:
                return [Violation(P, k, w, case) for k, w in pr]
        return []
    finally:
        teardown(s)
