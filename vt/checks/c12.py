"""C12 - the in-memory object cache is invisible and bounded.

Explicit-state BFS (to closure where possible) over store operation sequences: the cache-wrapped store
built through dds.set_store(..., cache_objects=c) runs in lock step with the bare store built the same way
without the option; every answer must agree. With the local store underneath, fetched objects are
weak-referenced and the number still alive must never exceed the bound.
"""
import gc
import os
import shutil
import tempfile
import time
import weakref

from .. import core, pool
from ..core import Result, Violation
from ..seqmc import bfs
from ..seqmc.models import Obj, Lossy, canon, tree, call

P = "C12"
KEYS = {"k0": "present", "k1": "absent", "k2": "later", "k3": "none_present", "k4": "later_none", "k5": "present2", "k6": "later_lossy"}
H = {k: (k[1] * 64) for k in KEYS}  # 64-char fake signatures


def alphabet(kind="local"):
    ops = []
    for k in KEYS:
        if kind == "memory" and k == "k6":
            continue  # a lossy pickle and a wiped directory only mean something with a file store underneath
        ops.append(("has", k))
        ops.append(("fetch", k))
    ops += [("store", "k2", "v2"), ("store", "k4", None), ("store", "k0", "v0"), ("store", "k0", "v0b")] + ([("store", "k6", "lossy"), ("wipe_reopen",), ("ext_store", "k1", "v1")] if kind != "memory" else [])
    ops += [
            ("sync", "/p", "k0"), ("sync", "/p", "k2"), ("paths", "/p"), ("paths", "/q")]
    return ops


class Sys:
    pass


def _mk_store(kind, root, tag, cache):
    import dds
    import dds._api as api
    kw = {}
    if cache is not None:
        kw["cache_objects"] = cache
    if kind == "memory":
        dds.set_store("memory", **kw)
    else:
        dds.set_store("local", internal_dir=os.path.join(root, tag, "i"), data_dir=os.path.join(root, tag, "d"), **kw)
    st = api._store()
    api._store_var = None
    return st


def build(kind, cap):
    s = Sys()
    s.kind, s.cap = kind, cap
    s.root = tempfile.mkdtemp(prefix="ddsvt_c12_") if kind == "local" else None
    # underlying content is written through uncached handles first
    pre = {"k0": Obj("v0"), "k3": None, "k5": Obj("v5")}
    if kind == "memory":
        s.bare = _mk_store(kind, s.root, "bare", None)
        s.wrapped = _mk_store(kind, s.root, "wrap", cap)
        inner = s.wrapped
        for k, v in pre.items():
            s.bare.store_blob(H[k], v, None)
            inner.store_blob(H[k], v, None)  # store is pass-through by contract ("storing the blob is not cached")
    else:
        for tag in ("bare", "wrap"):
            st = _mk_store(kind, s.root, tag, None)
            for k, v in pre.items():
                st.store_blob(H[k], v, None)
        s.bare = _mk_store(kind, s.root, "bare", None)
        s.wrapped = _mk_store(kind, s.root, "wrap", cap)
    s.weak = []
    return s


def teardown(s):
    if s.root:
        shutil.rmtree(s.root, ignore_errors=True)


def _norm(r):
    if r[0] == "ok" and hasattr(r[1], "items"):
        return ("ok", tuple((str(k), str(v)) for k, v in r[1].items()))
    return r


def apply(s, op):
    kind = op[0]
    if kind == "has":
        f = lambda st: st.has_blob(H[op[1]])
    elif kind == "fetch":
        f = lambda st: st.fetch_blob(H[op[1]])
    elif kind == "wipe_reopen":
        # the directories are wiped and the very same dds.set_store call is made again: nothing of the old store may be served
        if s.kind != "local":
            return []
        shutil.rmtree(s.root, ignore_errors=True)
        os.makedirs(s.root)
        s.bare = _mk_store(s.kind, s.root, "bare", None)
        s.wrapped = _mk_store(s.kind, s.root, "wrap", s.cap)
        s.weak = []
        return []
    elif kind == "ext_store":
        # another process (an uncached handle on the same directories) stores a blob that was absent so far
        for tag in ("bare", "wrap"):
            _mk_store(s.kind, s.root, tag, None).store_blob(H[op[1]], Obj(op[2]), None)
        return []
    elif kind == "store":
        f = lambda st: st.store_blob(H[op[1]], None if op[2] is None else (Lossy("l") if op[2] == "lossy" else Obj(op[2])), None)
    elif kind == "sync":
        from collections import OrderedDict
        f = lambda st: st.sync_paths(OrderedDict([(op[1], H[op[2]])]))
    else:
        f = lambda st: st.fetch_paths([op[1]])
    rb = _norm(call(f, s.bare))
    rw = _norm(call(f, s.wrapped))
    probs = []
    if rb != rw:
        kc = "path"
        if op[1] in KEYS:
            ex = call(lambda: s.bare.has_blob(H[op[1]]))
            kc = ("none_valued" if op[1] in ("k3", "k4") else "exists") if ex == ("ok", True) else "missing"
        probs.append(("answer", f"C12|answer|{kind}|{kc}|wrapped={_short(rw)}|bare={_short(rb)}",
                      f"{op}: wrapped store answered {rw!r}, bare store {rb!r}"))
    if s.kind == "local" and kind == "fetch" and rw[0] == "ok" and rw[1] is not None:
        try:
            s.weak.append(weakref.ref(rw[1]))
        except TypeError:
            pass
    del rb, rw
    if s.kind == "local":
        bound = s.cap if s.cap is not None and s.cap >= 0 else 10 ** 9
        alive = len({id(w()) for w in s.weak if w() is not None})
        if alive > bound:
            gc.collect()
            alive = len({id(w()) for w in s.weak if w() is not None})
        if alive > bound:
            probs.append(("bound", f"C12|bound|retained_gt_capacity", f"{alive} fetched objects alive with capacity {bound}"))
    return probs


def _short(r):
    if r[0] == "ok":
        v = r[1]
        return "None" if v is None else ("Obj" if isinstance(v, Obj) else type(v).__name__ + (":" + str(v) if isinstance(v, bool) else ""))
    return f"{r[0]}:{r[1]}"


def key(s):
    k = (canon(s.bare, s.root), canon(s.wrapped, s.root))
    if s.kind == "local":
        k += (tree(s.root),)
    return k


def _job(items):
    out = []
    core.ensure_repo_dds()
    time.time = lambda: 1.6e9  # the meta timestamp is the only clock read; own it
    for kind, cap, depth in items:
        st = bfs.explore(alphabet(kind), lambda: build(kind, cap), apply, key, depth, teardown=teardown)
        out.append(dict(kind=kind, cap=cap, depth=depth, states=st.states, transitions=st.transitions, closed=st.closed,
                        max_depth=st.max_depth, samples=st.samples[:2],
                        problems=[(list(h), list(o), p) for h, o, p in st.problems]))
    return out


# ------------------------------------------------------------------ another writer between two calls of one operation

class _Between:
    """stands between the cache wrapper and the store it wraps: before the n-th call that the wrapper makes, another
    process stores a blob into the same directories"""

    def __init__(self, inner, at, event):
        self._inner, self._at, self._event, self.n = inner, at, event, 0

    def __getattr__(self, name):
        real = getattr(self._inner, name)
        if not callable(real) or name.startswith("_"):
            return real

        def w(*a, **k):
            if self.n == self._at:
                self.n += 1
                self._event()
            else:
                self.n += 1
            return real(*a, **k)
        return w


def check_between(cap, opname, value):
    """the key is absent; one wrapper operation on it; at every boundary between the calls it makes to the wrapped store another
    process stores the blob. Afterwards the wrapper answers like the bare store."""
    probs, n = [], 0
    for at in range(0, 4):
        s = build("local", cap)
        try:
            k = H["k1"]
            v = None if value == "none" else Obj("late")
            fired = []

            def event():
                fired.append(1)
                for tag in ("bare", "wrap"):
                    _mk_store("local", s.root, tag, None).store_blob(k, v, None)
            inner = s.wrapped._store
            s.wrapped._store = _Between(inner, at, event)
            call(lambda: getattr(s.wrapped, opname)(k))
            s.wrapped._store = inner
            if not fired:
                break
            n += 1
            for q in ("has_blob", "fetch_blob"):
                rb, rw = _norm(call(lambda: getattr(s.bare, q)(k))), _norm(call(lambda: getattr(s.wrapped, q)(k)))
                if rb != rw:
                    probs.append((f"C12|between_calls|{opname}|stored={value}|{q}|wrapped={_short(rw)}|bare={_short(rb)}",
                                  f"[cap={cap}] another process stores the (so far absent) blob before call {at} that {opname} makes to the wrapped store; "
                                  f"afterwards {q}: wrapped {rw!r}, bare {rb!r}", {"mode": "between", "cap": cap, "op": opname, "value": value}))
        finally:
            teardown(s)
    return probs, n


# ------------------------------------------------------------------ option decoding

def check_option(c):
    """cache_objects=c decoded as documented: None/False/0 no retention, True default bound, n>0 bound n, <0 unbounded."""
    import dds._lru_store as lru
    default = getattr(lru, "default_cache_size", 10)
    bound = {None: 0, False: 0, 0: 0, True: default}.get(c) if (c is None or isinstance(c, bool) or c == 0) else (c if c > 0 else 10 ** 9)
    root = tempfile.mkdtemp(prefix="ddsvt_c12o_")
    probs = []
    try:
        pre = _mk_store("local", root, "x", None)
        n = 15
        for i in range(n):
            pre.store_blob(f"{i:064d}", Obj(i), None)
        st = _mk_store("local", root, "x", c)
        weak = []
        for rnd in range(2):
            for i in range(n):
                v = st.fetch_blob(f"{i:064d}")
                if v != Obj(i):
                    probs.append((f"C12|option|cache_objects={c!r}|wrong_value", f"fetch returned {v!r}"))
                weak.append(weakref.ref(v))
                del v
        gc.collect()
        alive = len({id(w()) for w in weak if w() is not None})
        if alive > bound:
            probs.append((f"C12|option|cache_objects={c!r}|retained_gt_bound", f"{alive} objects retained, bound {bound}"))
    except BaseException as e:  # noqa
        probs.append((f"C12|option|cache_objects={c!r}|{core.exc_tag(e)}", f"{type(e).__name__}: {e}"))
    finally:
        shutil.rmtree(root, ignore_errors=True)
    return probs


OPTIONS = [None, False, True, 0, -1, 1, 2, 3, 10]


def configs(tier):
    cfg = []
    for cap in (1, 2, 3, 10, -1):
        cfg.append(("memory", cap, 40))  # to closure
    for cap in (1, 2, 3, 10, -1):
        cfg.append(("local", cap, (4 if tier == "quick" else 7)))
    return cfg


def run(tier, seed):
    res = Result(P, "model_checking")
    cfg = configs(tier)
    outs = pool.pmap(_job, cfg, chunk=1)
    states = trans = 0
    per = []
    for o in outs:
        states += o["states"]
        trans += o["transitions"]
        per.append({k: o[k] for k in ("kind", "cap", "depth", "states", "transitions", "closed", "max_depth")})
        for h, op, p in o["problems"]:
            res.violations.append(Violation(P, p[1], f"[{o['kind']} cap={o['cap']}] after {h}: {p[2]}",
                                            {"mode": "seq", "kind": o["kind"], "cap": o["cap"], "ops": h + [op]}))
    for c in OPTIONS:
        for k, what in check_option(c):
            res.violations.append(Violation(P, k, what, {"mode": "option", "c": c}))
    n_between = 0
    for cap in (1, 10):
        for opname in ("fetch_blob", "has_blob"):
            for value in ("obj", "none"):
                pr, nb = check_between(cap, opname, value)
                n_between += nb
                for k, what, case in pr:
                    res.violations.append(Violation(P, k, what, case))
    res.violations.sort(key=lambda v: len(v.replay.get("ops", [])))
    res.coverage = dict(
        states=states, transitions=trans, traces_validated_against_impl=trans,
        exhaustive=all(p["closed"] for p in per if p["kind"] == "memory"),
        per_config=per, option_values=[repr(c) for c in OPTIONS], between_call_points=n_between,
        rule="BFS over 19 store operations on 6 keys (present, absent, stored-later, None-valued, later-None, present2) and 2 paths; "
             "state = canonical object graph of wrapped+bare store (+ directory tree for local); closed=true means the reachable "
             "state space was exhausted, otherwise explored to the stated depth",
        samples=[s for o in outs for s in o["samples"]][:6],
    )
    res.assumptions = ["the bare store built through the same dds.set_store call without cache_objects is the reference model; "
                       "every transition is executed on both, so each explored trace is validated against the implementation"]
    return res


def replay(case):
    core.ensure_repo_dds()
    if case["mode"] == "option":
        return [Violation(P, k, w, case) for k, w in check_option(case["c"])]
    if case["mode"] == "between":
        time.time = lambda: 1.6e9
        return [Violation(P, k, w, c) for k, w, c in check_between(case["cap"], case["op"], case["value"])[0]]
    time.time = lambda: 1.6e9
    s = build(case["kind"], case["cap"])
    try:
        out = []
        for op in case["ops"]:
            for p in apply(s, tuple(op)):
                out.append(Violation(P, p[1], p[2], case))
            if out:
                break
        return out
    finally:
        teardown(s)
