"""C18 - graph export is faithful and does not perturb the evaluation.

Every composite program (call-graph shapes over <= 4 kept nodes, node styles incl. run-time-argument keeps, the
same function kept under two paths, loads) is evaluated with and without dds_export_graph; the exported graph
(graphviz 'plain' format) is parsed back and compared with the graph computed from the program's spec.
"""
import os
import shlex
import tempfile

from .. import core, pool
from ..core import Result, Violation
from ..progmc import jobs as J, spec as S
from ..progmc.world import Prog

P = "C18"


def parse_plain(text):
    nodes, edges = set(), []
    for line in text.splitlines():
        t = shlex.split(line)
        if not t:
            continue
        if t[0] == "node":
            nodes.add(t[1])
        elif t[0] == "edge":
            n = int(t[3])
            rest = t[4 + 2 * n:]
            edges.append((t[1], t[2], rest[-2]))
    return nodes, edges


def expected_graph(spec, entry):
    """-> (nodes, solid edges, dashed edges (must), dashed edges (allowed), info for dotted edges)"""
    kept_fn = {}   # path -> fn
    solid, dashed_must, dashed_may = set(), set(), set()
    nodes = set()
    order = {}     # caller fn -> list of (index, path or None, has_params) of its calls in order
    seen = set()

    def item_node(it):
        """path of the kept node an item creates, else None"""
        if it["k"] == "keep":
            return it["path"], it["fn"]
        if it["k"] in ("call", "hof") and S._fn(spec, it["fn"]).get("datafn"):
            return S._fn(spec, it["fn"])["datafn"], it["fn"]
        return None

    def heads(fname, stack=()):
        """kept nodes reachable from fname's body without crossing a kept function, in call order; loads of the body (own, helpers)"""
        f = S._fn(spec, fname)
        hs, own_loads, helper_loads = [], [], []
        for it in f.get("body", []):
            if it["k"] == "load":
                own_loads.append(S.norm_path(it["path"]))
                continue
            nd = item_node(it)
            if nd:
                hs.append(nd)
                visit_node(*nd)
            elif it["k"] in ("call", "hof", "method") and (it.get("fn") or it.get("cls")) not in stack:
                callee = it.get("fn") or it.get("cls")
                h2, l2, l3 = heads(callee, stack + (fname,))
                hs += h2
                helper_loads += l2 + l3
        return hs, own_loads, helper_loads

    def visit_node(path, fn):
        nodes.add(path)
        kept_fn[path] = fn
        if (path, fn) in seen:
            return
        seen.add((path, fn))
        hs, own, helper = heads(fn)
        for (p2, _f2) in hs:
            solid.add((p2, path))
        for p in own:
            dashed_must.add((p, path))
            nodes.add(p)
        for p in helper:
            dashed_may.add((p, path))

    e = spec["entries"][entry]
    if e["kind"] == "keep":
        visit_node(e["path"], e["fn"])
    else:
        f = S._fn(spec, e["fn"])
        if f.get("datafn"):
            visit_node(f["datafn"], e["fn"])
        else:
            heads(e["fn"])
    return nodes, solid, dashed_must, dashed_may, kept_fn


def has_cycle(edges):
    g = {}
    for a, b, _ in edges:
        g.setdefault(a, set()).add(b)
    color = {}

    def dfs(u):
        color[u] = 1
        for v in g.get(u, ()):
            if color.get(v) == 1:
                return [u, v]
            if color.get(v) is None:
                r = dfs(v)
                if r:
                    return [u] + r
        color[u] = 2
        return None
    for u in list(g):
        if color.get(u) is None:
            r = dfs(u)
            if r:
                return r
    return None


def one(world, spec, entry, store_kind):
    probs = []
    case = {"spec": spec, "entry": entry, "store": store_kind}

    def bad(sym, what):
        probs.append((f"C18|{sym}|{spec['key']}", f"[{spec['id']} {entry}] {what}", case))
    variant = S.v0(spec)
    a = Prog(world, spec, store_kind)
    b = Prog(world, spec, store_kind)
    out = os.path.join(world.scratch, f"graph_{a.n}.plain")
    try:
        a.goto(variant, "restart")
        ra, refa = a.run(entry)
        if ra.status != "ok":
            return probs, 0
        b.goto(variant, "restart")
        rb, refb = b.run(entry, opts={"dds_export_graph": out})
        if rb.status != "ok":
            bad(f"export_fails|{rb.exc}", f"the evaluation succeeds without export but raised {rb.exc}: {str(rb.excobj)[:120]} with it")
            return probs, 1
        if rb.value != ra.value:
            bad("result_differs", f"result with export {rb.value!r}, without {ra.value!r}")
        if rb.sigs != ra.sigs:
            bad("signatures_differ", "signatures with export differ from those without")
        if not os.path.exists(out):
            bad("no_file", "no graph file was written")
            return probs, 1
        nodes, edges = parse_plain(open(out).read())
        os.remove(out)
        xn, solid, dmust, dmay, kept_fn = expected_graph(spec, entry)
        # the same export once more, now that every blob is in the store: the graph describes the pipeline, not what is left to do
        rb2, _ = b.run(entry, opts={"dds_export_graph": out})
        if rb2.status == "ok" and os.path.exists(out):
            nodes2, edges2 = parse_plain(open(out).read())
            os.remove(out)
            if nodes2 != nodes or sorted(edges2) != sorted(edges):
                bad("warm_store_graph_differs", f"second export on the populated store: nodes {sorted(nodes2)} / {len(edges2)} edges, first export {sorted(nodes)} / {len(edges)} edges")
        elif rb2.status != "ok":
            bad(f"export_fails_on_warm_store|{rb2.exc}", f"second export raised {rb2.exc}: {str(rb2.excobj)[:100]}")
        cyc = has_cycle(edges)
        if cyc:
            bad("cycle" if len(set(cyc)) > 1 else "self_loop", f"the exported graph has a cycle: {' -> '.join(cyc)}")
        missing = xn - nodes
        if missing:
            bad("node_missing", f"kept / loaded path(s) {sorted(missing)} are not nodes of the graph (nodes: {sorted(nodes)})")
        extra = nodes - xn
        if extra:
            bad("node_unexpected", f"unexpected node(s) {sorted(extra)}")
        got_solid = {(u, v) for u, v, st in edges if st == "solid"}
        got_dashed = {(u, v) for u, v, st in edges if st == "dashed"}
        if not missing:
            if got_solid != solid:
                bad("solid_edges", f"solid edges {sorted(got_solid)}, expected {sorted(solid)}")
            if not (dmust <= got_dashed <= (dmust | dmay)):
                bad("dashed_edges", f"dashed edges {sorted(got_dashed)}, expected {sorted(dmust)} (+ optionally {sorted(dmay)})")
        for u, v, st in edges:
            if st in ("solid", "dashed"):
                continue
            if st != "dotted":
                bad("edge_style", f"edge {u}->{v} has style {st}")
                continue
            fn = kept_fn.get(v)
            if fn is None or not S._fn(spec, fn).get("params"):
                bad("dotted_head_without_arguments", f"dotted edge {u} -> {v}: the head is not a keep with arguments")
    finally:
        a.cleanup()
        b.cleanup()
    return probs, 1


def extra_programs():
    """shapes outside the plain composites: the same function under two paths, run-time siblings, loads"""
    out = []
    f = {"name": "F", "module": "main", "params": [], "body": []}
    out.append({"id": "G/two_paths_one_signature", "key": "two_paths_one_signature", "modules": ["main"], "vars": [], "eps": [],
                "funcs": [f, {"name": "root", "module": "main", "params": [], "body": [
                    {"k": "keep", "path": "/t/a", "fn": "F", "args": []}, {"k": "keep", "path": "/t/b", "fn": "F", "args": []}]}],
                "entries": {"eval_root": {"kind": "eval", "fn": "root"}}})
    g = {"name": "G", "module": "main", "params": [["x", None]], "body": []}
    for name, body in (("rt_siblings", [{"k": "const", "expr": "1"}, {"k": "keep", "path": "/t/a", "fn": "G", "args": [{"local": 0}]},
                                        {"k": "keep", "path": "/t/b", "fn": "G", "args": [{"local": 1}]}]),
                       ("rt_three_siblings", [{"k": "keep", "path": "/t/f", "fn": "F", "args": []}, {"k": "keep", "path": "/t/a", "fn": "G", "args": [{"local": 0}]},
                                              {"k": "keep", "path": "/t/b", "fn": "G", "args": [{"local": 1}]}]),
                       ("rt_same_head_twice", [{"k": "const", "expr": "1"}, {"k": "keep", "path": "/t/a", "fn": "G", "args": [{"local": 0}]},
                                               {"k": "keep", "path": "/t/a", "fn": "G", "args": [{"local": 0}]}])):
        out.append({"id": f"G/{name}", "key": name, "modules": ["main"], "vars": [], "eps": [],
                    "funcs": [f, g, {"name": "root", "module": "main", "params": [], "body": body}],
                    "entries": {"eval_root": {"kind": "eval", "fn": "root"}}})
    # an un-kept helper shared by two kept functions, followed by an argument-free sibling that leads to another keep
    def df(name, path, body):
        return {"name": name, "module": "main", "params": [], "datafn": path, "body": body}
    c = lambda fn: {"k": "call", "fn": fn, "form": "plain"}
    for name, xbody, ybody in (("shared_helper_first", [c("U"), c("B")], [c("U")]), ("shared_helper_last", [c("B"), c("U")], [c("U")]),
                               ("shared_helper_both", [c("U"), c("B")], [c("B"), c("U")])):
        out.append({"id": f"G/{name}", "key": name, "modules": ["main"], "vars": [], "eps": [],
                    "funcs": [df("A", "/s/a", []), df("B", "/s/b", []), {"name": "U", "module": "main", "params": [], "body": [c("A")]},
                              df("X", "/s/x", xbody), df("Y", "/s/y", ybody),
                              {"name": "root", "module": "main", "params": [], "body": [c("X"), c("Y")]}],
                    "entries": {"eval_root": {"kind": "eval", "fn": "root"}}})
    # three argument-taking calls in one body: the 1st and 3rd lead to the same kept node, the 2nd to another keep
    ca = lambda fn, a: {"k": "call", "fn": fn, "form": "plain", "args": [a]}
    out.append({"id": "G/three_arg_calls", "key": "three_arg_calls", "modules": ["main"], "vars": [], "eps": [],
                "funcs": [df("A", "/m/a", []), {"name": "UA", "module": "main", "params": [["x", None]], "body": [c("A")]},
                          {"name": "UA2", "module": "main", "params": [["x", None]], "body": [c("A")]},
                          {"name": "G", "module": "main", "params": [["x", None]], "body": []},
                          {"name": "STAGE2", "module": "main", "params": [["x", None]], "body": [{"k": "keep", "path": "/m/g", "fn": "G", "args": [{"param": "x"}]}]},
                          {"name": "root", "module": "main", "params": [], "body": [ca("UA", {"lit": "1"}), ca("STAGE2", {"local": 0}), ca("UA2", {"local": 1})]}],
                "entries": {"eval_root": {"kind": "eval", "fn": "root"}}})
    # v keeps /g/m, m keeps /g/u, and v also loads /g/u: both the solid chain and the dashed edge must be drawn
    out.append({"id": "G/load_of_transitive_dependency", "key": "load_of_transitive_dependency", "modules": ["main"], "vars": [], "eps": [],
                "funcs": [df("U", "/g/u", []), df("M", "/g/m", [c("U")]), df("V", "/g/v", [c("M"), {"k": "load", "path": "/g/u"}]),
                          {"name": "root", "module": "main", "params": [], "body": [c("V")]}],
                "entries": {"eval_root": {"kind": "eval", "fn": "root"}}})
    # two functions call the same two constant-argument keeps in opposite order
    ka = lambda path, fn, v: {"k": "keep", "path": path, "fn": fn, "args": [{"lit": v}]}
    out.append({"id": "G/opposite_order_of_two_keeps", "key": "opposite_order_of_two_keeps", "modules": ["main"], "vars": [], "eps": [],
                "funcs": [{"name": "A", "module": "main", "params": [["x", None]], "body": []}, {"name": "W", "module": "main", "params": [["x", None]], "body": []},
                          {"name": "F1", "module": "main", "params": [], "body": [ka("/o/a", "A", "5"), ka("/o/w", "W", "3")]},
                          {"name": "F2", "module": "main", "params": [], "body": [ka("/o/w", "W", "3"), ka("/o/a", "A", "5")]},
                          {"name": "root", "module": "main", "params": [], "body": [c("F1"), c("F2")]}],
                "entries": {"eval_root": {"kind": "eval", "fn": "root"}}})
    # a non-kept helper WITH a run-time argument that wraps an argument-less keep: that keep does not depend on the call order
    out.append({"id": "G/arg_helper_wraps_plain_keep", "key": "arg_helper_wraps_plain_keep", "modules": ["main"], "vars": [], "eps": [],
                "funcs": [f, {"name": "FS", "module": "main", "params": [], "body": []},
                          {"name": "H", "module": "main", "params": [["x", None]], "body": [{"k": "keep", "path": "/w/s", "fn": "FS", "args": []}]},
                          {"name": "root", "module": "main", "params": [], "body": [{"k": "keep", "path": "/w/a", "fn": "F", "args": []},
                                                                                     {"k": "call", "fn": "H", "form": "plain", "args": [{"local": 0}]}]}],
                "entries": {"eval_root": {"kind": "eval", "fn": "root"}}})
    # a function is kept and, right after, also called plainly in the same body (the plain call reaches the keep inside it)
    out.append({"id": "G/keep_then_plain_call", "key": "keep_then_plain_call", "modules": ["main"], "vars": [], "eps": [],
                "funcs": [{"name": "C", "module": "main", "params": [], "body": []},
                          {"name": "A", "module": "main", "params": [], "body": [{"k": "keep", "path": "/k/c", "fn": "C", "args": []}]},
                          df("GG", "/k/g", [{"k": "keep", "path": "/k/a", "fn": "A", "args": []}, c("A")]),
                          {"name": "root", "module": "main", "params": [], "body": [c("GG")]}],
                "entries": {"eval_root": {"kind": "eval", "fn": "root"}}})
    # paths with characters that mean something in the dot language (a colon separates a node from a port)
    f2 = {"name": "F2", "module": "main", "params": [], "body": [{"k": "keep", "path": "/t/x:a", "fn": "F", "args": []}]}
    out.append({"id": "G/colon_paths", "key": "colon_paths", "modules": ["main"], "vars": [], "eps": [],
                "funcs": [f, f2, {"name": "root", "module": "main", "params": [], "body": [
                    {"k": "keep", "path": "/t/x:c", "fn": "F2", "args": []}, {"k": "keep", "path": "/t/y z", "fn": "F3", "args": []}]},
                          {"name": "F3", "module": "main", "params": [], "body": []}],
                "entries": {"eval_root": {"kind": "eval", "fn": "root"}}})
    # a keep with a run-time argument whose function loads the path kept by an earlier sibling (no solid edge between the two)
    for nm, first in (("rt_sibling_loads_earlier_keep", {"k": "keep", "path": "/r/a", "fn": "F", "args": []}),
                      ("rt_sibling_loads_earlier_datafn", c("A"))):
        out.append({"id": f"G/{nm}", "key": nm, "modules": ["main"], "vars": [], "eps": [],
                    "funcs": [f, df("A", "/r/a", []), {"name": "GL", "module": "main", "params": [["x", None]], "body": [{"k": "load", "path": "/r/a"}]},
                              {"name": "root", "module": "main", "params": [], "body": [{"k": "const", "expr": "1"}, first,
                                                                                         {"k": "keep", "path": "/r/b", "fn": "GL", "args": [{"local": 0}]}]}],
                    "entries": {"eval_root": {"kind": "eval", "fn": "root"}}})
    from . import c09
    for pl in c09.PLACEMENTS:
        if pl == "loaded_value_through_map":
            continue   # written with a raw statement that the expected-graph computation cannot read
        for pr in ("datafn", "keepcall"):
            sp = c09.make_spec(pl, pr)
            sp = dict(sp, entries={"eval_root": sp["entries"]["both"]}, id="G/" + sp["id"], key="load|" + sp["key"])
            out.append(sp)
    return out


def programs(tier):
    from ..progmc import family as F
    out = []
    for sp in F.composites():
        n = len([f for f in sp["funcs"] if f["name"].startswith("N")])
        if tier == "quick" and n == 3 and sp["id"].count("datafn") == 3:
            pass
        out.append(sp)
    return out + extra_programs()


def _job(items):
    w = J.world()
    out = []
    for sp, entry, st in items:
        try:
            out.append(one(w, sp, entry, st))
        except BaseException as e:  # noqa
            import traceback
            raise core.HarnessError(f"{sp['id']}: {type(e).__name__} {e}\n{traceback.format_exc()[-1500:]}")
    return out


def run(tier, seed):
    res = Result(P, "exploration")
    progs = programs(tier)
    items = [(sp, "eval_root", "memory") for sp in progs]
    if tier != "quick":
        items += [(sp, "eval_root", "local") for sp in progs]
    outs = pool.pmap(_job, items)
    n = 0
    for probs, k in outs:
        n += k
        for key, what, case in probs:
            res.violations.append(Violation(P, key, what, case))
    res.violations.sort(key=lambda v: len(str(v.replay["spec"])))
    res.coverage = dict(evaluations=n * 2, distinct_nontrivial=len(progs), exhaustive=True, programs=len(progs),
                        rule="every composite program (shapes chain / fan / diamond / repeat over <= 4 kept nodes x node styles data function, zero-argument keep, "
                             "literal-argument keep, run-time-argument keep) + the same function under two paths, run-time-argument siblings, and the load "
                             "placements of C09; each evaluated without and with dds_export_graph (.plain) on fresh stores; graph parsed and compared with the "
                             "graph derived from the spec",
                        samples=[items[0][0]["id"], items[len(items) // 2][0]["id"], items[-1][0]["id"]])
    res.assumptions = ["dotted edges: only style, acyclicity and 'head is a keep with parameters' are demanded (weaker reading of 'run-time arguments')",
                       "a load in a non-kept helper of a kept function may or may not be drawn"]
    return res


def replay(case):
    w = J.world()
    probs, _ = one(w, case["spec"], case["entry"], case["store"])
    return [Violation(P, k, what, case) for k, what, _ in probs]
