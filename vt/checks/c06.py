"""C06 - a process killed at any instant never leaves a store that serves wrong data.

Crash-point enumeration on the real LocalFileStore code over the in-memory POSIX file system: the workload is
killed before each of its file-system primitives (each half of each write is a primitive of its own); a fresh
virtual process then loads, re-evaluates and loads again on the surviving directory state. Thorough tier adds a
second kill inside the recovery evaluation.
"""
from .. import core, pool
from ..core import Result, Violation
from . import c07 as C7

P = "C06"


def workloads():
    from ..fsmc import scenarios as SC
    B, kw = SC.body, SC.store_kw
    w = {}
    w["W1_first_keep_str"] = dict(setup=[], crash=B("keep", "fsm_a1", "f", "/a/x"), paths={"/a/x": ("fsm_a1", "f")})
    w["W2_first_keep_pickle"] = dict(setup=[], crash=B("keep", "fsm_a1", "p", "/a/p"), paths={"/a/p": ("fsm_a1", "p")})
    w["W2_first_keep_bytes"] = dict(setup=[], crash=B("keep", "fsm_a1", "b", "/a/b"), paths={"/a/b": ("fsm_a1", "b")})
    w["W2_first_keep_none"] = dict(setup=[], crash=B("keep", "fsm_a1", "n", "/a/n"), paths={"/a/n": ("fsm_a1", "n")})
    w["W3_rekeep_changed"] = dict(setup=[B("keep", "fsm_a1", "f", "/a/x")], crash=B("keep", "fsm_a2", "f", "/a/x"),
                                  paths={"/a/x": ("fsm_a2", "f")}, old={"/a/x": ("fsm_a1", "f")})
    w["W4_eval_nested_fresh"] = dict(setup=[], crash=B("eval", "fsm_a1", "root"), paths={"/a/x": ("fsm_a1", "f"), "/a/b/y": ("fsm_a1", "g")})
    w["W4_eval_nested_changed"] = dict(setup=[B("eval", "fsm_a1", "root")], crash=B("eval", "fsm_a2", "root"),
                                       paths={"/a/x": ("fsm_a2", "f"), "/a/b/y": ("fsm_a2", "g")},
                                       old={"/a/x": ("fsm_a1", "f"), "/a/b/y": ("fsm_a1", "g")})
    # the pipeline with nested keeps is itself kept at the top level (its own link is one of several the commit replaces one by one)
    w["W8_keep_nested_fresh"] = dict(setup=[], crash=B("keep", "fsm_a1", "root", "/top"),
                                     paths={"/top": ("fsm_a1", "root"), "/a/x": ("fsm_a1", "f"), "/a/b/y": ("fsm_a1", "g")})
    w["W8_keep_nested_changed"] = dict(setup=[B("keep", "fsm_a1", "root", "/top")], crash=B("keep", "fsm_a2", "root", "/top"),
                                       paths={"/top": ("fsm_a2", "root"), "/a/x": ("fsm_a2", "f"), "/a/b/y": ("fsm_a2", "g")},
                                       old={"/top": ("fsm_a1", "root"), "/a/x": ("fsm_a1", "f"), "/a/b/y": ("fsm_a1", "g")})
    # the code is edited after the crash: the recovery evaluates another version than the one that was killed
    w["W7_first_keep_then_edit"] = dict(setup=[], crash=B("keep", "fsm_a1", "f", "/a/x"), recover_as=B("keep", "fsm_a2", "f", "/a/x"),
                                        paths={"/a/x": ("fsm_a2", "f")})
    w["W7_rekeep_then_revert"] = dict(setup=[B("keep", "fsm_a1", "f", "/a/x")], crash=B("keep", "fsm_a2", "f", "/a/x"),
                                      recover_as=B("keep", "fsm_a1", "f", "/a/x"), paths={"/a/x": ("fsm_a1", "f")}, old={"/a/x": ("fsm_a1", "f")},
                                      old_new={"/a/x": ("fsm_a2", "f")})
    w["W7_eval_then_edit"] = dict(setup=[], crash=B("eval", "fsm_a1", "root"), recover_as=B("eval", "fsm_a2", "root"),
                                  paths={"/a/x": ("fsm_a2", "f"), "/a/b/y": ("fsm_a2", "g")})
    w["W5_rekeep_cached"] = dict(setup=[B("keep", "fsm_a1", "f", "/a/x", kw(cache=2))], crash=B("keep", "fsm_a2", "f", "/a/x", kw(cache=2)),
                                 paths={"/a/x": ("fsm_a2", "f")}, old={"/a/x": ("fsm_a1", "f")}, kw=kw(cache=2))
    w["W6_second_data_view"] = dict(setup=[B("keep", "fsm_a1", "f", "/a/x", kw(data="d1"))], crash=B("keep", "fsm_a1", "f", "/a/x", kw(data="d2")),
                                    paths={"/a/x": ("fsm_a1", "f")}, kw=kw(data="d2"), other_views=[(kw(data="d1"), {"/a/x": ("fsm_a1", "f")})])
    return w


def _after(trace):
    if not trace:
        return "nothing"
    _, op, args, res = trace[-1]
    path = args[1] if op == "symlink" else (args[-1] if op == "rename" else args[0])
    path = str(path)
    if ".meta" in path:
        cls = "meta"
    elif "/blobs/" in path:
        cls = "blob"
    elif path.startswith(("/d", "/d1", "/d2")) and op in ("symlink", "rename", "unlink"):
        cls = "link"
    else:
        cls = "dir"
    if ".tmp" in path and op != "rename":
        cls += "_tmp"
    return f"{op.rstrip('0123456789of')}:{cls}"


def recover(m, vfs, wl, wname, after, case, second_kill=None, pid0=70):
    """loads, re-evaluates, loads on the surviving state. -> (problems, nprims of the recovery evaluation, killed?)"""
    from ..fsmc import scenarios as SC, engine as E
    probs = []
    skw = wl.get("kw", SC.store_kw())

    def bad(sym, what):
        probs.append((f"C06|{wname}|{sym}|after={after}", what, case))

    crash = wl.get("recover_as", wl["crash"]).desc
    # (1) paths committed before the killed evaluation began still load their old or their new complete value
    for path, (mod, fn) in wl.get("old", {}).items():
        allowed = [SC.expected(mod, fn), SC.expected(*wl.get("old_new", wl["paths"])[path])]
        res, _, _ = E.run_sequential(m, vfs, SC.body("load", None, None, path, skw), pid=0, incarnation=pid0)
        if res[0] != "ok":
            bad(f"committed_path_lost|{res[1]}", f"load({path}) after the crash raised {res[1]}: {res[3]}")
        elif res[1][0] not in allowed:
            bad(f"committed_path_wrong|{C7._abbr(res[1][0])}", f"load({path}) after the crash returned {res[1][0]!r}, allowed {allowed!r}")
    for okw, paths in wl.get("other_views", []):
        for path, (mod, fn) in paths.items():
            res, _, _ = E.run_sequential(m, vfs, SC.body("load", None, None, path, okw), pid=0, incarnation=pid0 + 1)
            if res[0] != "ok" or res[1][0] != SC.expected(mod, fn):
                bad("other_view_damaged", f"the other data view no longer loads {path}: {res!r}")
    # (2) the same pipeline evaluated again returns the correct values
    b = SC.body(crash["kind"], crash["mod"], crash["fn"], crash["path"], skw)
    res, n, _ = E.run_sequential(m, vfs, b, kill_at=second_kill, pid=0, incarnation=pid0 + 2)
    if second_kill is not None and res[0] == "killed":
        return probs, n, True
    want = SC.expected(crash["mod"], crash["fn"])
    if res[0] != "ok":
        bad(f"reevaluation_raises|{res[1]}", f"re-evaluating after the crash raised {res[1]}: {res[3]}")
        return probs, n, False
    if res[1][0] != want:
        bad(f"reevaluation_wrong|{C7._abbr(res[1][0])}", f"re-evaluating after the crash returned {res[1][0]!r}, expected {want!r}")
    # (3) every path loads the new value  (4) a further evaluation executes nothing
    for path, (mod, fn) in wl["paths"].items():
        r2, _, _ = E.run_sequential(m, vfs, SC.body("load", None, None, path, skw), pid=0, incarnation=pid0 + 3)
        if r2[0] != "ok" or r2[1][0] != SC.expected(mod, fn):
            bad("path_wrong_after_recovery", f"after recovery load({path}) gave {r2!r}, expected {SC.expected(mod, fn)!r}")
    r3, _, _ = E.run_sequential(m, vfs, b, pid=0, incarnation=pid0 + 4)
    idle_log = ("root",) if crash["kind"] == "eval" else ()   # the evaluated root itself is not a kept function
    if r3[0] != "ok" or r3[1][0] != want or r3[1][1] != idle_log:
        bad("second_evaluation_recomputes", f"a further evaluation gave {r3!r} (expected the value and an empty execution log)")
    return probs, n, False


def run_workload(wname, double, only=None):
    from ..fsmc import engine as E, intercept as I, conform
    from ..fsmc.vfs import VFS
    m = C7.machine()
    wl = workloads()[wname]
    I.S.torn = True
    vfs0 = VFS()
    for b in wl["setup"]:
        res, _, _ = E.run_sequential(m, vfs0, b, pid=60)
        if res[0] != "ok":
            raise core.HarnessError(f"setup of {wname} failed: {res}")
    full = vfs0.clone()
    res, N, trace = E.run_sequential(m, full, wl["crash"], pid=0)
    if res[0] != "ok":
        raise core.HarnessError(f"workload {wname} does not run: {res}")
    conform.replay(vfs0.tree(), trace, full.tree())
    probs = []
    points = 0
    states = set()
    pts = range(0, N + 1) if only is None else [only[0]]
    for i in pts:
        v = vfs0.clone()
        r, n, tr = E.run_sequential(m, v, wl["crash"], kill_at=i if i < N else None, pid=0)
        after = _after(tr)
        states.add(repr(v.snapshot()))
        case = {"workload": wname, "kill_at": i, "second": None}
        if only is None or only[1] is None:
            pr, nrec, _ = recover(m, v.clone(), wl, wname, after, case)
            probs += pr
            points += 1
        else:
            nrec = 10 ** 6
        if double and i < N:
            js = range(0, 400) if only is None else [only[1]]
            for j in js:
                if j is None:
                    continue
                v2 = v.clone()
                case2 = {"workload": wname, "kill_at": i, "second": j}
                pr1, n1, killed = recover(m, v2, wl, wname, after, case2, second_kill=j)
                if not killed:
                    break
                states.add(repr(v2.snapshot()))
                pr2, _, _ = recover(m, v2, wl, wname, after + "+recovery_killed", case2, pid0=170)
                probs += [(k.replace("C06|", "C06|double|", 1), w, c) for k, w, c in pr2]
                points += 1
    return dict(workload=wname, primitives=N, crash_points=points, distinct_crash_states=len(states)), probs


def _job(items):
    out = []
    for wname, double in items:
        try:
            out.append(run_workload(wname, double))
        except core.HarnessError as e:
            # decided in run(): a harness error unless other workloads produced violations (which stand on their own replay)
            out.append(({"workload": wname, "harness_error": str(e)[:600]}, []))
        except BaseException as e:  # noqa
            import traceback
            raise core.HarnessError(f"workload {wname}: {type(e).__name__}: {e}\n{traceback.format_exc()[-1500:]}")
    return out


def run(tier, seed):
    res = Result(P, "fault_enumeration")
    names = list(workloads())
    outs = pool.pmap(_job, [(n, tier != "quick" or n in ("W1_first_keep_str", "W3_rekeep_changed")) for n in names], chunk=1)
    per = []
    deferred = []
    for stats, probs in outs:
        if "harness_error" in stats:
            deferred.append(stats)
            continue
        per.append(stats)
        for k, what, case in probs:
            res.violations.append(Violation(P, k, f"[{stats['workload']}] killed before primitive {case['kill_at']}"
                                            + (f", recovery killed before its primitive {case['second']}" if case.get("second") is not None else "") + f": {what}", case))
    if deferred and not res.violations:
        raise core.HarnessError(deferred[0]["harness_error"])
    for d in deferred:
        res.notes.append(f"workload {d['workload']} could not be explored: {d['harness_error'][:300]}")
    res.violations.sort(key=lambda v: (v.replay["second"] is not None, v.replay["kill_at"]))
    res.coverage = dict(evaluations=sum(s["crash_points"] for s in per), distinct_nontrivial=sum(s["distinct_crash_states"] for s in per),
                        exhaustive=True, per_workload=per, traces_validated_against_impl=len(per),
                        rule="per workload every boundary between two file-system primitives of the killed process (stat, mkdir, open, each half of each write, "
                             "close, rename, symlink ...) incl. before the first and after the last; for two workloads (thorough: all) also every boundary "
                             "inside the recovery evaluation (second kill); distinct_nontrivial = distinct surviving directory states; the un-killed trace of "
                             "each workload is replayed against a real directory",
                        samples=[{"workload": per[0]["workload"], "primitives": per[0]["primitives"], "kill_points": f"0..{per[0]['primitives']}"}])
    res.assumptions = ["every recovery process gets the same pid as the killed one (fresh randomness): the worst case for pid-derived temporary names",
                       "kill -9 semantics: process state lost, completed system calls durable (no power-loss reordering)",
                       "every write call reaches the file at once (no user-space buffering): a superset of the states a buffered writer leaves"]
    return res


def replay(case):
    stats, probs = run_workload(case["workload"], case.get("second") is not None, only=(case["kill_at"], case.get("second")))
    return [Violation(P, k, what, case) for k, what, _ in probs]
