from .. import pool
from ..core import Violation
from ..progmc import driver, placement

P = "C02"


def run(tier, seed):
    items = driver.plan(tier, P)
    res, outs = driver.run_plan(P, "model_checking", items)
    pitems = placement.placement_plan(tier)
    nsteps = 0
    for probs, n in pool.pmap(placement.placement_job, pitems, chunk=2):
        nsteps += n
        for prop, key, what, case in probs:
            if prop == P:
                res.violations.append(Violation(P, key, what, case))
    res.coverage["transitions"] += nsteps
    res.coverage["traces_validated_against_impl"] += nsteps
    res.coverage["placement_runs"] = {"programs_x_entries_x_placements": len(pitems), "steps": nsteps}
    res.coverage["rule"] = ("all histories of (variant, in-process edit | restart | copy to another accepted package, entry) incl. entry-style switches over the "
                            "program family; after every evaluation the log may contain a kept function only if the cone fingerprint of one of its nodes was "
                            "not evaluated before on this store; + the same programs as __main__ scripts and IPython cells through (A, B, A, A)")
    return res


def replay(case):
    if case.get("mode") == "placement":
        probs, _ = placement.placement_job([(case["spec"], case["entry"], case["placement"])])[0]
        return [Violation(P, k, w, case) for pr, k, w, _ in probs if pr == P]
    return driver.replay(P, case)
