"""C13 - a kept call's signature depends on the argument binding, not on its spelling.

Exhaustive table: functions with 1-3 parameters x default patterns x value tuples x every spelling (positional
prefix, keywords in every order, defaults omitted or explicit), each spelling evaluated both as a direct
dds.keep call with values and as a literal call site inside an evaluated wrapper. All spellings of one binding
must share one signature; two different bindings must not.
"""
import importlib
import itertools
import os
import shutil
import sys
import tempfile

from .. import core, pool
from ..core import Result, Violation
from ..seqmc.values import canon

P = "C13"
DEFAULTS = ["0", "False", "''", "None", "1", "'x'"]
VALUES = ["0", "1", "2", "''", "'x'", "None", "1.5", "-1", "0.0", "1.0", "True", "(1, 2)", "[1, 3]", "{'a': 1}", "()", "(1, (2, -3))"]
SMALLV = ["0", "1", "''", "None"]


def functions(tier):
    """[(name, [(param, default or None)])]"""
    out = [("g1", [("a", None)])]
    for d in [None] + DEFAULTS:
        out.append((f"g2_{len(out)}", [("a", None), ("b", d)]))
    pats3 = [(None, None), (None, "0"), ("None", "0"), ("1", "''"), (None, "None"), ("False", "'x'")]
    for db, dc in pats3:
        out.append((f"g3_{len(out)}", [("a", None), ("b", db), ("c", dc)]))
    # the kept callable is a class without methods in its source (a dataclass): its constructor binds the arguments
    out.append((f"dc2_{len(out)}", [("a", None), ("b", "0")]))
    out.append((f"dc3_{len(out)}", [("a", None), ("b", "None"), ("c", "'x'")]))
    out.append((f"dcm2_{len(out)}", [("a", None), ("b", "0")]))   # a dataclass with a method but no __init__ in its source
    if tier == "thorough":
        for db, dc, dd in [(None, None, "0"), (None, "0", "None"), ("1", "''", "False")]:
            out.append((f"g4_{len(out)}", [("a", None), ("b", db), ("c", dc), ("d", dd)]))
    return out


def spellings(params, values):
    """All call spellings binding exactly `values` (list aligned with params): (pos_args, kw_pairs)."""
    n = len(params)
    must = [i for i in range(n)]
    out = []
    omittable = [i for i in range(n) if params[i][1] is not None and values[i] == params[i][1]]
    for k in range(len(omittable) + 1):
        for omit in itertools.combinations(omittable, k):
            given = [i for i in must if i not in omit]
            # positional prefix length: positions must be contiguous from 0 and all given
            for npos in range(0, n + 1):
                if any(i not in given for i in range(npos)):
                    break
                kws = [i for i in given if i >= npos]
                perms = list(itertools.permutations(kws)) if len(kws) <= 3 else [tuple(kws), tuple(reversed(kws))]
                for perm in perms:
                    out.append((tuple(values[i] for i in range(npos)), tuple((params[i][0], values[i]) for i in perm)))
    return sorted(set(out))


def call_text(fname, sp):
    pos, kws = sp
    parts = ['"/p"', fname] + list(pos) + [f"{n}={v}" for n, v in kws]
    return "dds.keep(" + ", ".join(parts) + ")"


def module_text(fname, params, table):
    """table: list of (binding values, [spellings])"""
    sig = ", ".join(p if d is None else f"{p}={d}" for p, d in params)
    if fname.startswith("dc"):
        # the class lives in a small accepted module of its own (inspect re-parses the whole defining module for every class)
        lines = ["import dds", f"from DEFSMOD import {fname}", ""]
    else:
        lines = ["import dds", "", f"def {fname}({sig}):", "    return 'r'", ""]
    idx = 0
    index = []
    for values, sps in table:
        for sp in sps:
            lines += [f"def w{idx}():", f"    return {call_text(fname, sp)}", ""]
            index.append((values, sp, idx))
            idx += 1
    return "\n".join(lines), index


def tables(tier):
    out = []
    for fname, params in functions(tier):
        vals = VALUES if len(params) <= 2 else SMALLV
        table = []
        for combo in itertools.product(vals, repeat=len(params)):
            table.append((list(combo), spellings(params, list(combo))))
        out.append((fname, params, table))
    return out


def _sig_direct(mod, fname, sp, store_cls):
    import dds
    st = store_cls()
    dds.set_store(st)
    pos, kws = sp
    try:
        dds.keep("/p", getattr(mod, fname), *[eval(x) for x in pos], **{n: eval(v) for n, v in kws})
    except BaseException as e:  # noqa
        return ("exc", core.exc_tag(e))
    return ("h", st.last_sync.get("/p"))


def _sig_source(mod, idx, store_cls):
    import dds
    st = store_cls()
    dds.set_store(st)
    try:
        dds.eval(getattr(mod, f"w{idx}"))
    except BaseException as e:  # noqa
        return ("exc", core.exc_tag(e))
    return ("h", st.last_sync.get("/p"))


def run_function(fname, params, table, only=None):
    """-> (ncalls, problems, nbindings)"""
    core.ensure_repo_dds()
    import dds
    import dds._api as api
    from ..stores import CaptureStore
    root = tempfile.mkdtemp(prefix="ddsvt_c13_")
    modname = f"c13m_{fname}_{os.getpid()}"
    probs = []
    ncalls = 0
    try:
        text, index = module_text(fname, params, table)
        if fname.startswith("dc"):
            defs = ["import dataclasses", "", "@dataclasses.dataclass", f"class {fname}:"] + \
                   [f"    {p}: object" + ("" if d is None else f" = {d}") for p, d in params] + [""]
            if fname.startswith("dcm"):
                defs += ["    def total(self):", "        return 1", ""]
            open(os.path.join(root, modname + "_defs.py"), "w").write("\n".join(defs))
            text = text.replace("DEFSMOD", modname + "_defs")
            dds.accept_module(modname + "_defs")
        open(os.path.join(root, modname + ".py"), "w").write(text)
        sys.path.insert(0, root)
        importlib.invalidate_caches()
        mod = importlib.import_module(modname)
        dds.accept_module(modname)
        by_binding = {}
        for values, sp, idx in index:
            rows = by_binding.setdefault(tuple(values), [])
            rows.append(("direct", sp, _sig_direct(mod, fname, sp, CaptureStore)))
            rows.append(("source", sp, _sig_source(mod, idx, CaptureStore)))
            ncalls += 2
        # (1) one signature per binding
        sig_of = {}
        for values, rows in by_binding.items():
            sigs = {}
            for route, sp, s in rows:
                sigs.setdefault(s, []).append((route, sp))
            if len(sigs) > 1:
                items = sorted(sigs.items(), key=lambda kv: -len(kv[1]))
                (s0, g0), (s1, g1) = items[0], items[1]
                a, b = g0[0], g1[0]
                probs.append((f"C13|same_binding_differs|{_describe(params, values, a, b, s0, s1)}",
                              f"{fname}({', '.join(p if d is None else p + '=' + d for p, d in params)}) binding {dict(zip([p for p, _ in params], values))}: "
                              f"{a[0]} {call_text(fname, a[1])} -> {_s(s0)} but {b[0]} {call_text(fname, b[1])} -> {_s(s1)}",
                              {"fname": fname, "params": params, "values": list(values), "a": [a[0], a[1]], "b": [b[0], b[1]]}))
            for s in sigs:
                if s[0] == "h":
                    sig_of.setdefault(s[1], set()).add(values)
        # (2) different bindings, different signatures
        for s, vals in sig_of.items():
            cans = {}
            for v in vals:
                cans.setdefault(tuple(canon(eval(x)) for x in v), v)
            if len(cans) > 1:
                v1, v2 = sorted(cans.values())[:2]
                diff = [(params[i][0], v1[i], v2[i]) for i in range(len(params)) if canon(eval(v1[i])) != canon(eval(v2[i]))]
                probs.append((f"C13|collision|{'+'.join(f'{a}~{b}' for _, a, b in diff)}",
                              f"{fname}: bindings {v1} and {v2} share signature {s[:8]}",
                              {"fname": fname, "params": params, "v1": list(v1), "v2": list(v2)}))
    finally:
        api._store_var = None
        sys.modules.pop(modname, None)
        sys.modules.pop(modname + "_defs", None)
        if root in sys.path:
            sys.path.remove(root)
        shutil.rmtree(root, ignore_errors=True)
    return ncalls, probs, len(table)


KWONLY_MOD = '''import dds

def kw1(a, *rest, b=0):
    return 'r'

def kw2(a, *, b=0, c=1):
    return 'r'

CALLS
'''
KWONLY_CALLS = [("kw1", "1, 2, 3, b=7"), ("kw1", "1, 2, 3, b=8"), ("kw1", "1, 2, 4, b=7"), ("kw1", "1, 2, b=7"), ("kw1", "1, b=7"), ("kw1", "1"),
                ("kw2", "1, b=2"), ("kw2", "1, b=3"), ("kw2", "1, c=2"), ("kw2", "1, b=2, c=1"), ("kw2", "1, c=1, b=2"), ("kw2", "1")]


def check_kwonly():
    """functions with keyword-only parameters kept at call sites in source: a refusal is fine; signatures that are given tell the
    bindings apart and agree for two spellings of one binding"""
    core.ensure_repo_dds()
    import dds
    import dds._api as api
    from ..stores import CaptureStore
    root = tempfile.mkdtemp(prefix="ddsvt_c13k_")
    modname = f"c13k_{os.getpid()}"
    probs = []
    try:
        calls = "\n".join(f"def w{i}():\n    return dds.keep('/p', {fn}, {args})\n" for i, (fn, args) in enumerate(KWONLY_CALLS))
        open(os.path.join(root, modname + ".py"), "w").write(KWONLY_MOD.replace("CALLS", calls))
        sys.path.insert(0, root)
        importlib.invalidate_caches()
        mod = importlib.import_module(modname)
        dds.accept_module(modname)
        sigs = {}
        for i, (fn, args) in enumerate(KWONLY_CALLS):
            sigs[(fn, args)] = _sig_source(mod, i, CaptureStore)

        def binding(fn, args):
            ns = {}
            exec(f"def kw1(a, *rest, b=0): return ('kw1', a, rest, b)\ndef kw2(a, *, b=0, c=1): return ('kw2', a, b, c)\nr = {fn}({args})", ns)
            return ns["r"]
        by_sig = {}
        for (fn, args), s_ in sigs.items():
            if s_[0] == "h":
                by_sig.setdefault(s_[1], set()).add(binding(fn, args))
        for s_, bs in by_sig.items():
            if len(bs) > 1:
                a, b = sorted(bs, key=repr)[:2]
                probs.append((f"C13|collision|keyword_only|{a[0]}", f"bindings {a} and {b} of a function with keyword-only parameters share signature {s_[:8]}", {"mode": "kwonly"}))
        by_b = {}
        for (fn, args), s_ in sigs.items():
            by_b.setdefault(binding(fn, args), set()).add(s_)
        for b, ss in by_b.items():
            if len(ss) > 1:
                probs.append((f"C13|same_binding_differs|keyword_only|{b[0]}", f"binding {b}: {sorted(map(str, ss))[:2]}", {"mode": "kwonly"}))
    finally:
        api._store_var = None
        sys.modules.pop(modname, None)
        if root in sys.path:
            sys.path.remove(root)
        shutil.rmtree(root, ignore_errors=True)
    return probs, len(KWONLY_CALLS)


def _s(s):
    return s[1][:8] if s[0] == "h" and s[1] else str(s)


def _describe(params, values, a, b, s0, s1):
    def feat(x):
        route, (pos, kws) = x
        given = set(range(len(pos))) | {i for i, (p, _) in enumerate(params) if p in dict(kws)}
        omitted = [params[i][1] for i in range(len(params)) if i not in given]
        return route, omitted, len(kws) > 0
    fa, fb = feat(a), feat(b)
    tags = []
    if fa[0] != fb[0]:
        tags.append("direct~source")
    if fa[1] != fb[1]:
        om = sorted(set(fa[1]) ^ set(fb[1]))
        tags.append("omitted_default=" + ",".join(om))
    if fa[2] != fb[2] and not tags:
        tags.append("keyword~positional")
    if not tags:
        tags.append("keyword_order")
    if s0[0] != "h" or s1[0] != "h":
        tags.append("raises:" + (s0[1] if s0[0] != "h" else s1[1]))
    if "None" in values:
        tags.append("binds_None")
    if any(v.startswith("-") for v in values):
        tags.append("negative")
    return "|".join(tags)


def _job(items):
    out = []
    for fname, params, table in items:
        out.append((fname,) + run_function(fname, params, table))
    return out


def run(tier, seed):
    res = Result(P, "exploration")
    tabs = tables(tier)
    outs = pool.pmap(_job, tabs, chunk=1)
    ncalls = nb = 0
    nsp = sum(len(sps) for _, _, t in tabs for _, sps in t)
    for fname, n, probs, nbind in outs:
        ncalls += n
        nb += nbind
        for k, what, case in probs:
            res.violations.append(Violation(P, k, what, dict(case, mode="spelling" if "a" in case else "collision")))
    kprobs, nk = check_kwonly()
    ncalls += nk
    for k, what, case in kprobs:
        res.violations.append(Violation(P, k, what, case))
    res.violations.sort(key=lambda v: len(str(v.replay)))
    sample = tabs[2]
    res.coverage = dict(evaluations=ncalls, distinct_nontrivial=nb, exhaustive=True, functions=len(tabs), spellings=nsp,
                        rule="functions with 1-3 (thorough: 4) parameters x default patterns over {0, False, '', None, 1, 'x'} x every tuple of values over "
                             f"{VALUES} (3+ params: {SMALLV}) x every spelling (positional prefixes, keywords in every order, defaults omitted or "
                             "explicit) x {direct dds.keep with values, literal call site inside an evaluated wrapper}; distinct_nontrivial = number of "
                             "distinct (function, binding) pairs; all pairs of bindings compared by grouping on the signature",
                        samples=[{"function": sample[0], "params": sample[1], "binding": sample[2][5][0],
                                  "spellings": [call_text(sample[0], sp) for sp in sample[2][5][1]]}])
    res.assumptions = ["bool/int and other documented identifications carry no demand (canonical form of DESIGN 4.4)"]
    return res


def replay(case):
    if case.get("mode") == "kwonly":
        return [Violation(P, k, w, c) for k, w, c in check_kwonly()[0]]
    params = [tuple(p) for p in case["params"]]
    if case["mode"] == "spelling":
        table = [(case["values"], spellings(params, case["values"]))]
    else:
        table = [(case["v1"], spellings(params, case["v1"])), (case["v2"], spellings(params, case["v2"]))]
    n, probs, _ = run_function(case["fname"], params, table)
    return [Violation(P, k, w, case) for k, w, _ in probs]
