"""C08 - stores round-trip blobs and paths; distinct paths never alias or escape.

Part A: explicit-state BFS over store operation sequences against a dictionary model (memory, local,
cache-wrapped local, DBFS over a fake dbutils), state = model state + physical state.
Part B: path alphabet sweep - every path alone, and all pairs (exhaustively for memory/DBFS and for the
short paths on the local store; for the long paths on the local store every pair whose physical footprints
touch), each pair committed in both orders and read back; nothing may be created outside the data dir.
"""
import itertools
import json
import os
import shutil
import tempfile
import time
from collections import OrderedDict

from .. import core, pool
from ..core import Result, Violation
from ..seqmc import bfs
from ..seqmc.fake_dbutils import FakeDbutils
from ..seqmc.models import Obj, canon, tree, call

P = "C08"
KINDS = ["memory", "local", "local_cache", "local_symlink", "dbfs"]
VALS = {"k1": "x\r\ny\r", "k2": b"y\r\n\x00", "k3": None, "k4": Obj("o")}
KEYS = ["k1", "k2", "k3", "k4", "k5"]  # k5 is never stored
H = {k: k[1] * 64 for k in KEYS}
SEGS = ["a", "b", "ab", "a b", "a.b", ".a", "é", ".", ".."]
URI_SEGS = ["a?", "a#", "a%20b", "a%", "a;b", "a?b=c", "a#b", "?", "#", "a:b", "a\\b", "a+b", "a&b"]


class Sys:
    pass


def open_store(s):
    import dds
    import dds._api as api
    if s.kind == "memory":
        if getattr(s, "store", None) is not None:
            return s.store  # a memory store cannot be re-opened
        dds.set_store("memory")
    elif s.kind in ("local", "local_cache", "local_symlink"):
        kw = {"cache_objects": 2} if s.kind == "local_cache" else {}
        if s.kind == "local_symlink" and not os.path.lexists(os.path.join(s.root, "sandbox")):
            # both directories are reached through a symbolic link whose target sits at another depth
            os.makedirs(os.path.join(s.root, "elsewhere", "deep", "er", "real_sandbox"))
            os.symlink(os.path.join(s.root, "elsewhere", "deep", "er", "real_sandbox"), os.path.join(s.root, "sandbox"))
        dds.set_store("local", internal_dir=os.path.join(s.root, "sandbox", "i"),
                      data_dir=os.path.join(s.root, "sandbox", "d", "data"), **kw)
    else:
        dds.set_store("dbfs", internal_dir="dbfs:/int", data_dir="dbfs:/data", dbutils=s.db)
    st = api._store()
    api._store_var = None
    return st


def build(kind):
    s = Sys()
    s.kind = kind
    s.root = tempfile.mkdtemp(prefix="ddsvt_c08_") if kind.startswith("local") else None
    s.db = FakeDbutils() if kind == "dbfs" else None
    s.store = None
    s.store = open_store(s)
    s.blobs = {}
    s.paths = {}
    return s


def teardown(s):
    if s.root:
        shutil.rmtree(s.root, ignore_errors=True)


def physical(s):
    if s.kind == "memory":
        return canon(s.store)
    if s.kind == "dbfs":
        out = []
        for k, v in sorted(s.db.fs.files.items()):
            if k.endswith(".meta"):
                try:
                    j = json.loads(v)
                    j.pop("timestamp_millis", None)
                    v = json.dumps(j, sort_keys=True).encode()
                except Exception:
                    pass
            out.append((k, v if len(v) < 100 else (len(v), hash(v))))
        return tuple(out)
    return tree(s.root)


def key(s):
    return (tuple(sorted(s.blobs)), tuple(sorted(s.paths.items())), physical(s))


def alphabet(paths):
    ops = [("store", k) for k in VALS]
    ops += [("has", k) for k in KEYS] + [("fetch", k) for k in KEYS]
    ops += [("sync", ((p, k),)) for p in paths for k in ("k1", "k2")]
    ops += [("sync", ((paths[0], "k1"), (paths[1], "k2")))]
    ops += [("paths", (p,)) for p in paths] + [("paths", (paths[0], paths[1]))]
    ops += [("reopen",)]
    return ops


def apply(s, op):
    """One operation on the real store and on the dictionary model; returns problems."""
    k0 = op[0]
    st = s.store
    probs = []

    def bad(tag, what):
        probs.append((f"C08|{s.kind}|{tag}", f"{op}: {what}"))

    if k0 == "store":
        r = call(lambda: st.store_blob(H[op[1]], VALS[op[1]], None))
        s.blobs[op[1]] = VALS[op[1]]
        if r[0] != "ok":
            bad(f"store|{r[0]}:{r[1]}", f"store_blob failed: {r}")
    elif k0 == "has":
        r = call(lambda: st.has_blob(H[op[1]]))
        want = op[1] in s.blobs
        if r != ("ok", want):
            bad(f"has|want={want}|got={r[1]}", f"has_blob -> {r}, model {want}")
    elif k0 == "fetch":
        r = call(lambda: st.fetch_blob(H[op[1]]))
        if op[1] in s.blobs:
            want = s.blobs[op[1]]
            if r[0] != "ok" or r[1] != want or type(r[1]) is not type(want):
                bad(f"fetch|present|{type(want).__name__}|got={r[0]}:{type(r[1]).__name__ if r[0] == 'ok' else r[1]}",
                    f"fetch_blob -> {r!r}, stored {want!r}")
        else:
            if not (r == ("ok", None) or r[0] == "dds"):
                bad(f"fetch|absent|got={r[0]}", f"fetch_blob of a missing key -> {r!r}")
    elif k0 == "sync":
        pairs = [(p, k) for p, k in op[1] if k in s.blobs]
        if not pairs:
            return probs  # committing a path to a blob that was never stored is outside the property
        r = call(lambda: st.sync_paths(OrderedDict((p, H[k]) for p, k in pairs)))
        for p, k in pairs:
            s.paths[p] = k
        if r[0] != "ok":
            bad(f"sync|{r[0]}:{r[1]}", f"sync_paths failed: {r}")
    elif k0 == "paths":
        r = call(lambda: st.fetch_paths(list(op[1])))
        if all(p in s.paths for p in op[1]):
            want = {p: H[s.paths[p]] for p in op[1]}
            got = {str(a): str(b) for a, b in r[1].items()} if r[0] == "ok" and hasattr(r[1], "items") else r
            if got != want:
                bad("paths|committed|wrong" if r[0] == "ok" else f"paths|committed|{r[0]}:{r[1]}",
                    f"fetch_paths -> {got}, committed {want}")
        else:
            missing = [p for p in op[1] if p not in s.paths]
            if r[0] == "ok" and hasattr(r[1], "get") and any(r[1].get(p) is not None for p in missing):
                bad("paths|never_committed|served", f"fetch_paths served {r[1]} for never-committed {missing}")
    elif k0 == "reopen":
        r = call(lambda: open_store(s))
        if r[0] != "ok":
            bad(f"reopen|{r[0]}:{r[1]}", f"re-opening the store failed: {r}")
        else:
            s.store = r[1]
    return probs


def _bfs_job(items):
    core.ensure_repo_dds()
    time.time = lambda: 1.6e9
    out = []
    for kind, paths, depth in items:
        st = bfs.explore(alphabet(paths), lambda: build(kind), apply, key, depth, teardown=teardown)
        out.append(dict(kind=kind, paths=list(paths), depth=depth, states=st.states, transitions=st.transitions,
                        closed=st.closed, samples=st.samples[:2],
                        problems=[(list(h), list(o), p) for h, o, p in st.problems[:200]]))
    return out


# ------------------------------------------------------------------ Part B: paths

def all_paths(maxseg, segs=SEGS):
    out = []
    for n in range(1, maxseg + 1):
        for combo in itertools.product(segs, repeat=n):
            out.append("/" + "/".join(combo))
    return out


def _escape_check(s):
    """Everything the local store created lies inside sandbox/i or sandbox/d/data."""
    bad = []
    top = sorted(os.listdir(s.root))
    if top != ["sandbox"]:
        bad.append(f"entries next to the sandbox: {top}")
    sb = os.path.join(s.root, "sandbox")
    if sorted(os.listdir(sb)) != ["d", "i"]:
        bad.append(f"entries in sandbox: {sorted(os.listdir(sb))}")
    d = os.path.join(sb, "d")
    if sorted(os.listdir(d)) != ["data"]:
        bad.append(f"entries next to the data dir: {sorted(os.listdir(d))}")
    return bad


def single(kind, p):
    """Commit p alone on a fresh store. -> (status, footprint, problems)"""
    s = build(kind)
    probs = []
    try:
        s.store.store_blob(H["k1"], VALS["k1"], None)
        before = physical(s)
        r = call(lambda: s.store.sync_paths(OrderedDict([(p, H["k1"])])))
        status = "ok"
        if r[0] == "dds":
            status = "rejected"
            if physical(s) != before:
                probs.append((f"C08|{kind}|path|rejected_but_wrote", f"sync_paths({p!r}) raised DDSException but changed the store"))
        elif r[0] == "exc":
            status = "crash"
            probs.append((f"C08|{kind}|path|crash|{r[1]}|{_shape(p)}", f"sync_paths({p!r}) -> {r}"))
        else:
            f = call(lambda: s.store.fetch_paths([p]))
            got = {str(a): str(b) for a, b in f[1].items()} if f[0] == "ok" and hasattr(f[1], "items") else f
            if got != {p: H["k1"]}:
                probs.append((f"C08|{kind}|path|roundtrip|{f[0] if f[0] != 'ok' else 'wrong'}|{_shape(p)}",
                              f"committed {p!r} -> k1 but fetch_paths gave {got}"))
        after = physical(s)
        foot = tuple(sorted(set(after) - set(before))) if kind != "memory" else ()
        if kind.startswith("local"):
            for b in _escape_check(s):
                probs.append((f"C08|{kind}|path|escape|{_shape(p)}", f"after committing {p!r}: {b}"))
            foot = tuple((e[0], e[1]) for e in foot)
        else:
            foot = tuple(e[0] for e in foot)
        return status, foot, probs
    finally:
        teardown(s)


def _shape(p):
    segs = [x for x in p.split("/") if x]
    tags = []
    if any(x == ".." for x in segs):
        tags.append("dotdot")
    if any(x == "." for x in segs):
        tags.append("dot")
    if not tags:
        tags.append("plain")
    if segs and segs[-1] in (".", ".."):
        tags.append("last")
    return "+".join(tags) + f"|segs={'3+' if len(segs) >= 3 else len(segs)}"


def pair(kind, p, q):
    """Commit p->k1 then q->k2 (and the reverse, and both at once); read both back."""
    probs = []
    for order in ("pq", "qp", "both"):
        s = build(kind)
        try:
            s.store.store_blob(H["k1"], VALS["k1"], None)
            s.store.store_blob(H["k2"], VALS["k2"], None)
            want = {p: H["k1"], q: H["k2"]}
            seq = {"pq": [[p], [q]], "qp": [[q], [p]], "both": [[p, q]]}[order]
            rs = [call(lambda: s.store.sync_paths(OrderedDict((x, want[x]) for x in grp))) for grp in seq]
            if any(r[0] == "exc" for r in rs):
                continue  # crashes on a single path are reported by single()
            if any(r[0] == "dds" for r in rs):
                continue  # a rejected path: consistency of the rejection is checked by single()
            for x in (p, q):
                f = call(lambda: s.store.fetch_paths([x]))
                got = str(f[1].get(x)) if f[0] == "ok" and hasattr(f[1], "get") else f
                if got != want[x]:
                    probs.append((f"C08|{kind}|alias|{_shape(p)}~{_shape(q)}",
                                  f"[{order}] {p!r}->k1, {q!r}->k2 committed, but {x!r} resolves to {got if isinstance(got, tuple) else 'k' + got[0]}"))
                    break
        finally:
            teardown(s)
        if probs:
            break
    return probs


def prefix_pair(kind, p, q):
    """p is a proper segment-prefix of q. Inside ONE evaluation the API refuses such a pair (C11); across two commits nothing
    does. Commit p -> k1 and q -> k2 in two separate commits, in both orders: whatever the second commit answers, the first path
    still resolves to its key, a commit that returned resolves, and a commit that failed left nothing behind."""
    probs = []
    for first, second in ((p, q), (q, p)):
        s = build(kind)
        order = "parent_first" if first == p else "child_first"
        try:
            s.store.store_blob(H["k1"], VALS["k1"], None)
            s.store.store_blob(H["k2"], VALS["k2"], None)
            r1 = call(lambda: s.store.sync_paths(OrderedDict([(first, H["k1"])])))
            if r1[0] != "ok":
                continue
            if first == q:
                # only the longer path is committed so far: its prefix is a directory, not a committed path
                f0 = call(lambda: s.store.fetch_paths([p]))
                if f0[0] == "ok":
                    probs.append((f"C08|{kind}|prefix_pair|uncommitted_prefix_resolves", f"only {q!r} is committed, but fetch_paths([{p!r}]) -> {dict(f0[1]) if hasattr(f0[1], 'items') else f0[1]!r}"))
            before = physical(s)
            r2 = call(lambda: s.store.sync_paths(OrderedDict([(second, H["k2"])])))
            f1 = call(lambda: s.store.fetch_paths([first]))
            got1 = str(f1[1].get(first)) if f1[0] == "ok" and hasattr(f1[1], "get") else f1
            if got1 != H["k1"]:
                probs.append((f"C08|{kind}|prefix_pair|{order}|earlier_path_lost",
                              f"{first!r} -> k1 committed, then {second!r} -> k2 ({r2[0]}): {first!r} now resolves to {got1 if isinstance(got1, tuple) else 'k' + str(got1)[:1]}"))
            if r2[0] == "ok":
                f2 = call(lambda: s.store.fetch_paths([second]))
                got2 = str(f2[1].get(second)) if f2[0] == "ok" and hasattr(f2[1], "get") else f2
                if got2 != H["k2"]:
                    probs.append((f"C08|{kind}|prefix_pair|{order}|later_path_wrong", f"{second!r} -> k2 committed after {first!r}, but it resolves to {got2}"))
            else:
                if r2[0] == "exc":
                    probs.append((f"C08|{kind}|prefix_pair|{order}|crash|{r2[1]}", f"{first!r} committed by an earlier evaluation, then sync_paths({second!r}) -> {r2}"))
                left = sorted(set(physical(s)) - set(before))
                if left:
                    probs.append((f"C08|{kind}|prefix_pair|{order}|leftover", f"the failed commit of {second!r} left {left[:2]} behind"))
        finally:
            teardown(s)
    return probs


def _prefix_job(items):
    core.ensure_repo_dds()
    time.time = lambda: 1.6e9
    return [(kind, p, q, prefix_pair(kind, p, q)) for kind, p, q in items]


# ------------------------------------------------------------------ Part C: one transient I/O error at every position

def fault_cases():
    """(name, setup ops, faulty op): store-level operations of the local store over the in-memory file system"""
    K1, K2 = "1" * 64, "2" * 64
    return [
        ("first_store", [], ("store", K1, "v1")),
        ("store_again_same_key", [("store", K1, "v1"), ("sync", "/p/a", K1)], ("store", K1, "v1")),
        ("store_other_key", [("store", K1, "v1"), ("sync", "/p/a", K1)], ("store", K2, "v2")),
        ("commit_new_path", [("store", K1, "v1"), ("sync", "/p/a", K1)], ("sync", "/p/b", K1)),
        ("repoint_path", [("store", K1, "v1"), ("store", K2, "v2"), ("sync", "/p/a", K1)], ("sync", "/p/a", K2)),
    ]


def _store_body(ops, out):
    from ..fsmc import scenarios as SC

    def run():
        import dds
        import dds._api as api
        dds.set_store("local", **SC.store_kw())
        st = api._store()
        for op in ops:
            if op[0] == "store":
                st.store_blob(op[1], op[2], None)
            elif op[0] == "sync":
                st.sync_paths(OrderedDict([(op[1], op[2])]))
            elif op[0] == "observe":
                for k in op[1]:
                    out[("has", k)] = call(lambda: st.has_blob(k))
                    out[("fetch", k)] = call(lambda: st.fetch_blob(k)) if out[("has", k)] == ("ok", True) else None
                for p in op[2]:
                    r = call(lambda: st.fetch_paths([p]))
                    out[("path", p)] = ("ok", str(r[1].get(p))) if r[0] == "ok" and hasattr(r[1], "get") else r
        return None
    run.desc = dict(kind="store_ops")
    return run


def fault_part():
    from ..fsmc import engine as E
    from ..fsmc.vfs import VFS
    from . import c07
    m = c07.machine()
    probs, n = [], 0
    for name, setup, faulty in fault_cases():
        keys = sorted({op[1] for op in setup + [faulty] if op[0] == "store"} | {op[2] for op in setup + [faulty] if op[0] == "sync"})
        paths = sorted({op[1] for op in setup + [faulty] if op[0] == "sync"})
        base = VFS()
        res, _, _ = E.run_sequential(m, base, _store_body(setup, {}), pid=70)
        if res[0] != "ok":
            raise core.HarnessError(f"fault case {name}: setup failed {res}")
        before = {}
        E.run_sequential(m, base.clone(), _store_body([("observe", keys, paths)], before), pid=71)
        _, total, _ = E.run_sequential(m, base.clone(), _store_body([faulty], {}), pid=72)
        for k in range(total):
            vfs = base.clone()
            r, _, tr = E.run_sequential(m, vfs, _store_body([faulty], {}), pid=72, fail_at=k)
            n += 1
            after = {}
            E.run_sequential(m, vfs, _store_body([("observe", keys, paths)], after), pid=73)
            where = f"{tr[-1][1]}:{str(tr[-1][2][0]).rsplit('/', 1)[-1][:10]}" if tr else "?"
            case = {"mode": "fault", "case": name, "k": k}
            # whatever was completely there before the failing operation is still there, unchanged
            for q, v in before.items():
                if v in (("ok", False), None) or (q[0] == "path" and v[0] != "ok"):
                    continue
                if q[0] == "path" and faulty[0] == "sync" and faulty[1] == q[1]:
                    ok = after.get(q) in (v, ("ok", faulty[2]))   # the path being re-pointed: old or new
                else:
                    ok = after.get(q) == v
                if not ok:
                    probs.append((f"C08|local|io_error|{name}|lost|{q[0]}", f"[{name}] an I/O error at primitive {k} ({where}) of {faulty[:2]}: {q} was {v!r}, now {after.get(q)!r}", case))
            # a blob reported present is fetched back
            for k_ in keys:
                if after.get(("has", k_)) == ("ok", True) and (after.get(("fetch", k_)) or ("?",))[0] != "ok":
                    probs.append((f"C08|local|io_error|{name}|present_but_unreadable", f"[{name}] after an I/O error at primitive {k} ({where}): has_blob True but fetch_blob -> {after.get(('fetch', k_))!r}", case))
            # the operation can be repeated successfully
            r2, _, _ = E.run_sequential(m, vfs, _store_body([faulty], {}), pid=74)
            final = {}
            E.run_sequential(m, vfs, _store_body([("observe", keys, paths)], final), pid=75)
            if r2[0] != "ok":
                probs.append((f"C08|local|io_error|{name}|retry_fails|{r2[1]}", f"[{name}] after an I/O error at primitive {k} ({where}) the same operation fails again: {r2}", case))
            elif faulty[0] == "store" and (final.get(("has", faulty[1])), (final.get(("fetch", faulty[1])) or ("?", None))[:2]) != (("ok", True), ("ok", faulty[2])):
                probs.append((f"C08|local|io_error|{name}|retry_wrong", f"[{name}] after the retry: {final}", case))
    return probs, n


def _single_job(items):
    core.ensure_repo_dds()
    time.time = lambda: 1.6e9
    return [(kind, p) + single(kind, p) for kind, p in items]


def _pair_job(items):
    core.ensure_repo_dds()
    time.time = lambda: 1.6e9
    return [(kind, p, q, pair(kind, p, q)) for kind, p, q in items]


def _touch(fa, fb):
    """Footprints touch: a non-directory location of one equals, or is a directory prefix of, a location of the other."""
    def split(f):
        leaf, alle = [], []
        for e in f:
            loc, k = (e[0], e[1]) if isinstance(e, tuple) else (e, "f")
            if "/blobs/" in loc or loc.startswith("sandbox/i/"):
                continue
            alle.append(loc)
            if k != "d":
                leaf.append(loc)
        return leaf, alle
    la, aa = split(fa)
    lb, ab = split(fb)
    for leafs, others in ((la, ab), (lb, aa)):
        for x in leafs:
            for y in others:
                if x == y or y.startswith(x + "/"):
                    return True
    return False


def run(tier, seed):
    res = Result(P, "model_checking")
    # ---- Part A
    windows = [("/a", "/a2/b", "/c/d/e"), ("/ab/c", "/a/b/c", "/a/bc")]
    if tier == "thorough":
        windows += [("/a b", "/é/x", "/a.b/.c"), ("/x/y", "/x/z", "/xy")]
    depth = 4 if tier == "quick" else 6
    jobs = [(k, w, depth if k.startswith("local") else depth + 1) for k in KINDS for w in windows]
    outs = pool.pmap(_bfs_job, jobs, chunk=1)
    states = trans = 0
    per = []
    for o in outs:
        states += o["states"]
        trans += o["transitions"]
        per.append({k: o[k] for k in ("kind", "paths", "depth", "states", "transitions", "closed")})
        for h, op, p in o["problems"]:
            res.violations.append(Violation(P, p[0], f"[{o['kind']}] after {h}: {p[1]}",
                                            {"mode": "seq", "kind": o["kind"], "ops": h + [op]}))
    # ---- Part B
    p3 = all_paths(3)
    extra4 = ["/a/b/a/b", "/ab/a/b", "/a/ba/b", "/a/b/ab", "/a/b/c/d".replace("c", "a").replace("d", "b"), "/ab/ab", "/a/b/a b", "/./a/b/a", "/a/b/../a"]
    # segments that mean something in a URI (DBFS locations are URIs): each next to its plain counterpart
    for sp_ in URI_SEGS:
        extra4 += ["/" + sp_, "/a/" + sp_, "/" + sp_ + "/a"]
    extra4 += ["/a/a", "/a"] if "/a/a" not in p3 else []
    # different strings that are canonically equivalent in Unicode (composed / decomposed), or differ only by case
    for sp_ in ["caf\u00e9", "cafe\u0301", "\u00c5", "\u212b", "A\u030a", "Caf\u00e9", "CAF\u00c9"]:
        extra4 += ["/" + sp_, "/a/" + sp_]
    # names the stores use for their own bookkeeping
    extra4 += ["/_dds_meta/a", "/_dds_meta/a/b", "/_dds_meta", "/blobs/a", "/data/a"]
    singles = [(k, p) for k in ("memory", "local", "dbfs") for p in p3 + extra4]
    sres = pool.pmap(_single_job, singles)
    status = {}
    foot = {}
    for kind, p, st, fp, probs in sres:
        status[(kind, p)] = st
        foot[(kind, p)] = fp
        for k, what in probs:
            res.violations.append(Violation(P, k, what, {"mode": "single", "kind": kind, "path": p}))

    def segs(p):
        return tuple(x for x in p.split("/") if x)

    pairs = []
    nodots = [p for p in p3 + extra4 if "." not in segs(p) and ".." not in segs(p)]
    for kind in ("memory", "dbfs"):
        ok = [p for p in (p3 + extra4 if kind == "memory" else nodots) if status[(kind, p)] == "ok"]
        if tier == "quick":
            # all pairs of <=2-segment paths + every pair that shares the last segment or a concatenation
            short = [p for p in ok if len(segs(p)) <= 2]
            cand = set(itertools.combinations(short, 2))
            bylast = {}
            for p in ok:
                bylast.setdefault(segs(p)[-1], []).append(p)
                bylast.setdefault("".join(segs(p)), []).append(p)
            for grp in bylast.values():
                cand.update(itertools.combinations(grp[:40], 2))
            pairs += [(kind, a, b) for a, b in sorted(cand) if segs(a) != segs(b)]
        else:
            pairs += [(kind, a, b) for a, b in itertools.combinations(ok, 2) if segs(a) != segs(b)]
    okl = [p for p in p3 + extra4 if status[("local", p)] == "ok"]
    short = [p for p in okl if len(segs(p)) <= 2]
    cand = set(itertools.combinations(short, 2))
    n_touch = 0
    for a, b in itertools.combinations(okl, 2):
        if segs(a) != segs(b) and _touch(foot[("local", a)], foot[("local", b)]):
            # a proper segment-prefix pair (/a vs /a/b) is an overlap the API rejects upstream (C11), not aliasing
            sa, sb = segs(a), segs(b)
            if sa == sb[:len(sa)] or sb == sa[:len(sb)]:
                continue
            cand.add((a, b))
            n_touch += 1
    pairs += [("local", a, b) for a, b in sorted(cand) if segs(a) != segs(b)
              and not (segs(a) == segs(b)[:len(segs(a))] or segs(b) == segs(a)[:len(segs(b))])]
    # distinct paths never share a location: the non-directory entries a path creates belong to it alone
    n_loc = 0
    for kind in ("local", "dbfs"):
        owners = {}
        for p in p3 + extra4:
            if status[(kind, p)] != "ok":
                continue
            for e in foot[(kind, p)]:
                loc, k = (e[0], e[1]) if isinstance(e, tuple) else (e, "f")
                if k != "d" and "/blobs/" not in loc and not loc.startswith("sandbox/i/"):
                    owners.setdefault(loc, []).append(p)
                    n_loc += 1
        for loc, ps in owners.items():
            distinct = {}
            for p in ps:
                distinct.setdefault(segs(p), p)
            if len(distinct) > 1:
                a, b = sorted(distinct.values(), key=lambda x: (len(x), x))[:2]
                res.violations.append(Violation(P, f"C08|{kind}|shared_location|{_shape(a)}~{_shape(b)}",
                                                f"paths {a!r} and {b!r} both write {loc}", {"mode": "foot", "kind": kind, "p": a, "q": b}))
    # proper segment-prefix pairs committed by two separate evaluations
    ppairs = [(kind, a, b) for kind in ("memory", "local") for a, b in
              [("/a", "/a/b"), ("/a/b", "/a/b/a"), ("/a", "/a/b/ab"), ("/a b", "/a b/a"), ("/é", "/é/a"), ("/a.b", "/a.b/.a")]]
    for kind, a, b, probs in pool.pmap(_prefix_job, ppairs):
        for k, what in probs:
            res.violations.append(Violation(P, k, what, {"mode": "prefix", "kind": kind, "p": a, "q": b}))
    fprobs, n_fault = fault_part()
    for k, what, case in fprobs:
        res.violations.append(Violation(P, k, what, case))
    pres = pool.pmap(_pair_job, pairs)
    for kind, p, q, probs in pres:
        for k, what in probs:
            res.violations.append(Violation(P, k, what, {"mode": "pair", "kind": kind, "p": p, "q": q}))
    res.violations.sort(key=lambda v: len(json.dumps(v.replay)))
    nrej = sum(1 for v in status.values() if v == "rejected")
    res.coverage = dict(
        states=states, transitions=trans + len(singles) + 3 * len(pairs),
        traces_validated_against_impl=trans + len(singles) + 3 * len(pairs),
        bfs=per, single_paths=len(singles), path_pairs=len(pairs), prefix_pairs_across_commits=len(ppairs), io_error_points=n_fault, owned_locations=n_loc, footprint_touching_pairs_local=n_touch,
        rejected_paths=nrej, exhaustive=(tier == "thorough"),
        rule="Part A: BFS over 27 store operations (store/has/fetch of 5 keys with str, bytes, None, object values; sync/fetch of a "
             "3-path window; reopen) against a dictionary model, state = model + physical state. Part B: each of the "
             f"{len(p3) + len(extra4)} paths of 1-3 (+ selected 4) segments over {SEGS} committed alone per store kind; pairs committed in "
             "both orders and at once and read back",
        samples=[s for o in outs for s in o["samples"]][:4] + [list(pairs[0]), list(pairs[-1])],
    )
    res.assumptions = ["a key always maps to one value (content addressing); committing a path to a never-stored blob is not exercised",
                       "DBFS is a dictionary-backed fake of dbutils.fs; '.'/'..' segments are not paired on DBFS (URI normalisation is the service's)",
                       "segment-prefix pairs (/a, /a/b) are excluded from aliasing inside one commit: the API rejects them before the store (C11); across two commits they are exercised separately (prefix_pair)"]
    return res


def replay(case):
    core.ensure_repo_dds()
    time.time = lambda: 1.6e9
    m = case["mode"]
    if m == "seq":
        s = build(case["kind"])
        try:
            for op in case["ops"]:
                op = tuple(tuple(tuple(y) if isinstance(y, list) else y for y in x) if isinstance(x, list) else x for x in op)
                pr = apply(s, op)
                if pr:
                    return [Violation(P, k, w, case) for k, w in pr]
            return []
        finally:
            teardown(s)
    if m == "single":
        return [Violation(P, k, w, case) for k, w in single(case["kind"], case["path"])[2]]
    if m == "fault":
        return [Violation(P, k, what, c) for k, what, c in fault_part()[0] if c["case"] == case["case"] and c["k"] == case["k"]]
    if m == "prefix":
        return [Violation(P, k, what, case) for k, what in prefix_pair(case["kind"], case["p"], case["q"])]
    if m == "pair":
        return [Violation(P, k, w, case) for k, w in pair(case["kind"], case["p"], case["q"])]
    if m == "foot":
        fa, fb = single(case["kind"], case["p"])[1], single(case["kind"], case["q"])[1]
        la = {(e[0] if isinstance(e, tuple) else e) for e in fa if not (isinstance(e, tuple) and e[1] == "d")}
        lb = {(e[0] if isinstance(e, tuple) else e) for e in fb if not (isinstance(e, tuple) and e[1] == "d")}
        sh = {x for x in la & lb if "/blobs/" not in x and not x.startswith("sandbox/i/")}
        if sh:
            return [Violation(P, f"C08|{case['kind']}|shared_location|{_shape(case['p'])}~{_shape(case['q'])}", f"shared: {sorted(sh)}", case)]
        return []
    raise core.HarnessError(m)
