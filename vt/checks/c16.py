"""C16 - every usable local-store configuration works; data dirs are independent views.

(a) Full product of internal_dir form x data_dir form x cache_objects x working-directory behaviour, each run as
real separate interpreters: process 1 keeps two paths, process 2 (other working directory) loads both and keeps
again (must execute nothing); one variant changes the working directory inside a single process.
(b) BFS over interleavings of {keep in view 1, keep in view 2, edit, load in view 1 / 2} for two stores sharing
one internal directory, against a dictionary model.
"""
import itertools
import json
import os
import shutil
import subprocess
import sys
import tempfile

from .. import core, pool
from ..core import Result, Violation
from ..seqmc import bfs
from ..seqmc.models import call, tree

P = "C16"
FORMS = ["absolute", "relative", "trailing_slash", "nested_new", "symlinked_parent"]
CACHES = ["unset", None, False, True, 0, -1, 3]
CWD_MODES = ["same_cwd", "other_cwd_in_second_process", "chdir_inside_process", "same_set_store_call_after_chdir"]
MOD = '''import dds
LOG = []
X = 1

@dds.data_function("/one")
def one():
    LOG.append("one")
    return "one(%d)" % X

def three():
    LOG.append("three")
    return b"three" + bytes([X])
'''


def dirs(base, form, tag):
    """-> (string to pass in process 1 (cwd = base/cwd1), absolute path of the same directory)"""
    if form == "absolute":
        p = os.path.join(base, f"abs_{tag}")
        return p, p
    if form == "relative":
        return f"rel_{tag}", os.path.join(base, "cwd1", f"rel_{tag}")
    if form == "trailing_slash":
        p = os.path.join(base, f"ts_{tag}")
        return p + "/", p
    if form == "nested_new":
        p = os.path.join(base, "n1", "n2", f"n3_{tag}")
        return p, p
    if form == "symlinked_parent":
        # the link and its target sit at different depths (relative link targets computed on one side break on the other)
        os.makedirs(os.path.join(base, "deep", "er", "real_parent"), exist_ok=True)
        if not os.path.islink(os.path.join(base, "link_parent")):
            os.symlink(os.path.join(base, "deep", "er", "real_parent"), os.path.join(base, "link_parent"))
        p = os.path.join(base, "link_parent", f"sp_{tag}")
        return p, p
    raise ValueError(form)


def _proc(job):
    env = dict(os.environ, PYTHONDONTWRITEBYTECODE="1", PYTHONHASHSEED="0")
    p = subprocess.run([core.PY, os.path.join(core.VERIF, "vt", "seqmc", "c16_proc.py"), json.dumps(job)], capture_output=True, text=True, env=env, timeout=120)
    for line in p.stdout.splitlines():
        if line.startswith("RESULT "):
            return json.loads(line[7:])["steps"]
    return [["interpreter", "exc", (p.stderr or p.stdout)[-300:], []]]


def run_config(fi, fd, cache, mode):
    base = tempfile.mkdtemp(prefix="ddsvt_c16_")
    probs = []
    case = {"mode": "config", "fi": fi, "fd": fd, "cache": cache, "cwd": mode}
    try:
        os.makedirs(os.path.join(base, "cwd1"))
        os.makedirs(os.path.join(base, "cwd2"))
        moddir = os.path.join(base, "mods")
        os.makedirs(moddir)
        open(os.path.join(moddir, "c16mod.py"), "w").write(MOD)
        i1, iabs = dirs(base, fi, "i")
        d1, dabs = dirs(base, fd, "d")
        common = {"repo": core.REPO, "moddir": moddir, "cache": cache}
        key = f"internal={fi}|data={fd}|{mode}"

        def bad(sym, what):
            probs.append((f"C16|{sym}|{key}", f"[internal_dir {fi}, data_dir {fd}, cache_objects={cache!r}, {mode}] {what}", case))

        want = {"keep1": "one(1)", "keep3": "three\x01", "load1": "one(1)", "load3": "three\x01"}

        def check(steps, who, expect_exec, must_exec=False):
            for name, st, val, log in steps:
                if must_exec and st == "ok" and name.startswith("keep") and not log:
                    bad("served_from_another_store", f"{who}: {name} did not execute although this store is empty")
                if st != "ok":
                    bad(f"{name.rstrip('13')}_fails|{val.split(':')[0]}", f"{who}: {name} raised {val}")
                    return False
                if name in want:
                    v = val if isinstance(val, str) else val
                    if v != want[name]:
                        bad(f"{name.rstrip('13')}_wrong", f"{who}: {name} returned {val!r}, expected {want[name]!r}")
                    if name.startswith("keep") and not expect_exec and log:
                        bad("recomputed", f"{who}: {name} executed {log} although the blob is stored")
            return True
        if mode == "same_set_store_call_after_chdir":
            # the very same set_store call is made again after the working directory changed: with a relative internal_dir this is
            # ANOTHER (empty) store, with an absolute one the same store; either way keep then load must round-trip
            steps = _proc(dict(common, cwd=os.path.join(base, "cwd1"), internal=i1, data=d1,
                               actions=["keep", "load", "chdir:" + os.path.join(base, "cwd2"), "set_store", "keep", "load"]))
            if check(steps[:5], "process 1", True):
                check(steps[6:], "process 1 after os.chdir and the same set_store call", fi == "relative", must_exec=(fi == "relative"))
            stray_ok = fi == "relative" or fd == "relative"
        elif mode == "chdir_inside_process":
            steps = _proc(dict(common, cwd=os.path.join(base, "cwd1"), internal=i1, data=d1, actions=["keep", "chdir:" + os.path.join(base, "cwd2"), "load", "keep"]))
            # the second 'keep' round must find everything stored
            first = steps[:3]
            rest = steps[3:]
            if check(first, "process 1", True):
                check(rest, "process 1 after os.chdir", False)
        else:
            s1 = _proc(dict(common, cwd=os.path.join(base, "cwd1"), internal=i1, data=d1, actions=["keep", "load"]))
            if check(s1, "process 1", True):
                if mode == "same_cwd":
                    s2 = _proc(dict(common, cwd=os.path.join(base, "cwd1"), internal=i1, data=d1, actions=["load", "keep"]))
                else:
                    s2 = _proc(dict(common, cwd=os.path.join(base, "cwd2"), internal=iabs, data=dabs, actions=["load", "keep"]))
                check(s2, "process 2", False)
        # the results are where the configuration says (nothing strays into the working directories)
        for p_, name in ((iabs, "internal_dir"), (dabs, "data_dir")):
            if not os.path.isdir(p_):
                bad("dir_missing", f"{name} {p_} does not exist after the run")
        stray = [x for x in os.listdir(os.path.join(base, "cwd2"))]
        if stray and not (mode == "same_set_store_call_after_chdir" and (fi == "relative" or fd == "relative")):
            bad("stray_files", f"files created in an unrelated working directory: {stray}")
    finally:
        shutil.rmtree(base, ignore_errors=True)
    return probs


def _cfg_job(items):
    out = []
    for fi, fd, cache, mode in items:
        out.append(run_config(fi, fd, cache, mode))
    return out


# ------------------------------------------------------------------ (b) two data views on one internal directory

class Sys:
    pass


_N = [0]


VMOD = '''import dds
LOG = []
X = 1

def inner():
    LOG.append("inner")
    return "inner(%d)" % X

def one():
    LOG.append("one")
    return "one(%d)" % X + dds.keep("/x/y", inner)

def reader():
    LOG.append("reader")
    return "reader(" + str(dds.load("/one")) + ")"
'''


def build_views():
    import importlib
    import dds
    s = Sys()
    s.root = tempfile.mkdtemp(prefix="ddsvt_c16v_")
    _N[0] += 1
    s.modname = f"c16v_{os.getpid()}_{_N[0]}"
    os.makedirs(os.path.join(s.root, "mods"))
    os.makedirs(os.path.join(s.root, "stores"))
    open(os.path.join(s.root, "mods", s.modname + ".py"), "w").write(VMOD)
    sys.path.insert(0, os.path.join(s.root, "mods"))
    importlib.invalidate_caches()
    s.mod = importlib.import_module(s.modname)
    dds.accept_module(s.modname)
    s.x = 1
    s.internal = "shared_internal"
    s.moves = 0
    s.committed = {1: None, 2: None}
    s.blobs = set()
    return s


def teardown_views(s):
    import dds._api as api
    import dds.introspect as intro
    api._store_var = None
    intro._accepted_packages.discard(s.modname)
    sys.modules.pop(s.modname, None)
    if os.path.join(s.root, "mods") in sys.path:
        sys.path.remove(os.path.join(s.root, "mods"))
    shutil.rmtree(s.root, ignore_errors=True)


def apply_views(s, op):
    import dds
    probs = []

    def bad(sym, what):
        probs.append((f"C16|views|{sym}", f"{op}: {what}"))
    if op[0] == "edit":
        s.x = 3 - s.x
        s.mod.X = s.x
        return probs
    if op[0] in ("move_internal", "new_internal"):
        # the internal directory is lost and a new, empty one is configured at another place; the data directories stay
        # (their links dangle until the paths are kept again)
        if s.moves >= 1:
            return probs   # one move per history keeps the space finite
        if op[0] == "move_internal":
            shutil.rmtree(os.path.join(s.root, "stores", s.internal), ignore_errors=True)
        # (new_internal: the old directory stays where it is - the links of the data directories still lead to its blobs,
        # which are not blobs of the store configured now)
        s.moves += 1
        s.internal = f"shared_internal_{s.moves}"   # never a location used before: the old links cannot come back to life
        if op[0] == "move_internal":
            s.committed = {1: None, 2: None}
        s.blobs = set()
        return probs
    v = op[1]
    dds.set_store("local", internal_dir=os.path.join(s.root, "stores", s.internal), data_dir=os.path.join(s.root, "stores", f"view{v}"))
    s.mod.LOG[:] = []
    if op[0] == "read":
        # an evaluation that loads /one (kept by an earlier evaluation of this view) inside a kept function
        r = call(lambda: dds.keep("/r", s.mod.reader))
        c = s.committed[v]
        if c is not None and c in s.blobs:
            if r != ("ok", "reader(one(%d)inner(%d))" % (c, c)):
                bad(f"reader_wrong|{r[0]}", f"reader in view {v} -> {r!r}, /one was last committed as one({c})...")
        elif r[0] == "ok":
            bad("reader_served_without_blob", f"reader in view {v} returned {r[1]!r} although the view cannot serve /one")
        return probs
    if op[0] == "keep":
        r = call(lambda: dds.keep("/one", s.mod.one))
        if r != ("ok", "one(%d)inner(%d)" % (s.x, s.x)):
            bad(f"keep_wrong|{r[0]}", f"keep in view {v} -> {r!r}")
            return probs
        ran = bool(s.mod.LOG)
        if ran and s.x in s.blobs:
            bad("recomputed_in_other_view", f"view {v} re-executed {s.mod.LOG} although the shared internal directory holds the blobs")
        s.blobs.add(s.x)
        s.committed[v] = s.x
    else:
        path = op[2]
        r = call(lambda: dds.load(path))
        fmt = {"/one": "one(%d)inner(%d)", "/x/y": "inner(%d)"}[path]
        if s.committed[v] is None:
            if r[0] == "ok":
                bad("view_not_independent", f"view {v} never committed {path} but load returned {r[1]!r}")
        elif s.committed[v] not in s.blobs:
            # the view's links lead to a key that the internal directory configured now does not hold
            if r[0] == "ok":
                bad("served_without_blob", f"load({path}) in view {v} returned {r[1]!r} although the configured internal directory does not hold the key")
        else:
            c = s.committed[v]
            want = fmt % ((c, c) if path == "/one" else (c,))
            if r != ("ok", want):
                bad(f"view_wrong_value|{path}|{r[0]}", f"load({path}) in view {v} -> {r!r}, this view last committed {want!r}")
    return probs


def key_views(s):
    return (s.x, s.internal, tuple(sorted(s.committed.items())), tuple(sorted(s.blobs)), tree(os.path.join(s.root, "stores")))


VIEW_OPS = [("keep", 1), ("keep", 2), ("edit",), ("move_internal",), ("new_internal",), ("read", 1), ("load", 1, "/one"), ("load", 2, "/one"), ("load", 1, "/x/y"), ("load", 2, "/x/y")]


def _views_job(items):
    core.ensure_repo_dds()
    import time
    time.time = lambda: 1.6e9
    out = []
    for depth, special in items:
        # at most one of the two "internal directory" events happens per history: two searches cover the same space
        ops = [o for o in VIEW_OPS if o[0] not in ("move_internal", "new_internal") or o[0] == special]
        st = bfs.explore(ops, build_views, apply_views, key_views, depth, teardown=teardown_views)
        out.append(dict(states=st.states, transitions=st.transitions, closed=st.closed, samples=st.samples[:2],
                        problems=[(list(h), list(o), p) for h, o, p in st.problems[:50]]))
    return out


def run(tier, seed):
    res = Result(P, "exploration")
    cfgs = []
    for fi, fd in itertools.product(FORMS, FORMS):
        for cache in (CACHES if tier != "quick" else ["unset", 3]):
            for mode in CWD_MODES:
                if tier == "quick" and cache == 3 and mode not in ("other_cwd_in_second_process", "same_set_store_call_after_chdir"):
                    continue
                cfgs.append((fi, fd, cache, mode))
    outs = pool.pmap(_cfg_job, cfgs, chunk=2)
    for probs in outs:
        for k, what, case in probs:
            res.violations.append(Violation(P, k, what, case))
    vd = 6 if tier == "quick" else 20
    vouts = pool.pmap(_views_job, [(vd, "move_internal"), (vd, "new_internal")], chunk=1, procs=2)
    vouts = [dict(vouts[0], states=sum(o["states"] for o in vouts), transitions=sum(o["transitions"] for o in vouts),
                  closed=all(o["closed"] for o in vouts), problems=[p for o in vouts for p in o["problems"]])]
    for o in vouts:
        for h, op, p in o["problems"]:
            res.violations.append(Violation(P, p[0], f"after {h}: {p[1]}", {"mode": "views", "ops": h + [op]}))
    res.violations.sort(key=lambda v: len(str(v.replay)))
    res.coverage = dict(evaluations=len(cfgs) + vouts[0]["transitions"], distinct_nontrivial=len(cfgs), exhaustive=(tier != "quick"),
                        configurations=len(cfgs), view_states=vouts[0]["states"], view_transitions=vouts[0]["transitions"], view_space_closed=vouts[0]["closed"],
                        rule=f"(a) internal_dir form x data_dir form over {FORMS} x cache_objects x {CWD_MODES}, each as real interpreters (keep two paths of 1 and 3 "
                             "segments; load + re-keep in a second interpreter / after os.chdir); (b) BFS over {keep in view 1|2, edit, load in view 1|2} for two "
                             "data directories on one internal directory, state = model + directory tree; distinct_nontrivial = configurations",
                        samples=[dict(zip(("internal_dir", "data_dir", "cache_objects", "cwd"), cfgs[0])), dict(zip(("internal_dir", "data_dir", "cache_objects", "cwd"), cfgs[-1]))] + vouts[0]["samples"][:1])
    res.assumptions = ["a second process that runs in another working directory passes the absolute form of the same directories",
                       "'usable' directories: creatable by the current user; permission problems are not exercised"]
    return res


def replay(case):
    if case["mode"] == "config":
        return [Violation(P, k, what, case) for k, what, _ in run_config(case["fi"], case["fd"], case["cache"], case["cwd"])]
    core.ensure_repo_dds()
    s = build_views()
    try:
        for op in case["ops"]:
            pr = apply_views(s, tuple(op))
            if pr:
                return [Violation(P, k, w, case) for k, w in pr]
        return []
    finally:
        teardown_views(s)
