from ..progmc import driver

P = "C04"


def run(tier, seed):
    items = driver.plan(tier, P)
    res, outs = driver.run_plan(P, "model_checking", items)
    return res


def replay(case):
    return driver.replay(P, case)
