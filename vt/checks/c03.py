"""C03 - signatures depend only on program content, never on the environment.

(A) the signature table of the program family is computed in several real interpreters that differ in hash seed,
working directory, on-disk location of the generated packages, store kind, debugging option and graph export,
and must be identical; (B) inside one interpreter the signatures of (program, variant, entry) must be the same
after every history of edits / restarts / earlier evaluations; (C) a pinned corpus of committed sources must
reproduce its committed signatures byte for byte; (D) the same text as a __main__ script and re-defined in a
later IPython cell.
"""
import importlib
import json
import os
import shutil
import subprocess
import sys
import tempfile

from .. import core, pool
from ..core import Result, Violation
from ..progmc import driver

P = "C03"
GOLD = os.path.join(core.VERIF, "golden")


def environments(tier, seed):
    base = {"level": tier, "hashseed": 0, "cwd": None, "pkgroot": None, "store": "memory", "debug": None, "export": False}
    envs = [("base", dict(base))]
    s2 = 1000 + seed % 991
    envs.append(("hashseed=1", dict(base, hashseed=1)))
    envs.append((f"hashseed={s2}", dict(base, hashseed=s2)))
    envs.append(("cwd=/+pkgdir=deep", dict(base, cwd="/", pkgroot="DEEP")))
    envs.append(("store=local", dict(base, store="local")))
    envs.append(("store=local_cache2+debug_off", dict(base, store="local_cache2", debug=False)))
    envs.append(("export+debug_on_per_call", dict(base, export=True, debug_call=True)))
    envs.append(("builtin_named_modules_on_sys_path", dict(base, builtin_named_modules=True)))
    if tier != "quick":
        envs.append(("all_different", dict(base, hashseed=s2 + 1, cwd="/", pkgroot="DEEP", store="local_cache2", debug=False, export=True)))
        envs.append(("store=local_cache100+hashseed=2", dict(base, store="local_cache100", hashseed=2)))
    return envs


def _table_proc(item):
    name, job = item
    job = dict(job)
    tmp = None
    if job.get("pkgroot") == "DEEP":
        tmp = tempfile.mkdtemp(prefix="ddsvt_deep_")
        job["pkgroot"] = os.path.join(tmp, "x y", "z.w", "pkgs")
    env = dict(os.environ, PYTHONHASHSEED=str(job.pop("hashseed")), PYTHONPATH=core.VERIF, PYTHONDONTWRITEBYTECODE="1")
    try:
        p = subprocess.run([core.PY, "-m", "vt.progmc.sigtable", json.dumps(job)], capture_output=True, text=True, env=env, cwd=core.VERIF, timeout=3000)
    finally:
        if tmp:
            shutil.rmtree(tmp, ignore_errors=True)
    for line in p.stdout.splitlines():
        if line.startswith("TABLE "):
            return name, json.loads(line[6:])
    raise core.HarnessError(f"signature table in environment {name} failed: {p.stderr[-1500:]}")


def _tables_job(items):
    return [_table_proc(it) for it in items]


# ------------------------------------------------------------------ (C) pinned corpus

def corpus_signatures(only=None):
    core.ensure_repo_dds()
    import dds
    import dds._api as api
    from ..stores import CaptureStore
    corpus = os.path.join(GOLD, "corpus")
    index = json.load(open(os.path.join(GOLD, "index.json")))
    if corpus not in sys.path:
        sys.path.insert(0, corpus)
    sys.dont_write_bytecode = True
    ns = {"OrderedDict": __import__("collections").OrderedDict, "PurePosixPath": __import__("pathlib").PurePosixPath}
    out = {}
    for pkg, info in sorted(index.items()):
        if only and pkg not in only:
            continue
        dds.accept_module(pkg)
        res = {}
        for name, e in sorted(info["entries"].items()):
            st = CaptureStore()
            dds.set_store(st)
            try:
                m = importlib.import_module(e["module"])
                fn = getattr(m, e["fn"])
                args = [eval(a, ns) for a in e.get("args", [])]
                kwargs = {k: eval(a, ns) for k, a in e.get("kwargs", [])}
                if e["kind"] == "eval":
                    dds.eval(fn, *args, **kwargs)
                elif e["kind"] == "keep":
                    dds.keep(e["path"], fn, *args, **kwargs)
                else:
                    fn(*args, **kwargs)
                sig = {}
                for d in st.syncs:
                    sig.update(d)
                res[name] = sig
            except BaseException as ex:  # noqa
                res[name] = {"__status__": core.exc_tag(ex)}
                api._eval_ctx = None
        out[pkg] = res
    api._store_var = None
    return out


CORPUS_CHUNK = 40


def _corpus_job(items):
    return [corpus_signatures(only=set(items))]


def check_corpus(only=None):
    pinned = json.load(open(os.path.join(GOLD, "sigs.json")))
    index = json.load(open(os.path.join(GOLD, "index.json")))
    if only:
        now = corpus_signatures(only=only)
        pinned = {k: v for k, v in pinned.items() if k in only}
    else:
        now = {}
        for part in pool.pmap(_corpus_job, sorted(pinned), chunk=CORPUS_CHUNK):
            now.update(part)
    probs = []
    for pkg in sorted(pinned):
        # only signatures are pinned: an entry that was refused when the corpus was pinned demands nothing
        ents = [e for e in pinned[pkg] if "__status__" not in pinned[pkg][e] and now.get(pkg, {}).get(e) != pinned[pkg][e]]
        if ents:
            e = ents[0]
            a, b = pinned[pkg][e], now.get(pkg, {}).get(e)
            paths = sorted(p for p in set(a) | set(b or {}) if a.get(p) != (b or {}).get(p))
            probs.append((f"C03|pinned_corpus_drift", f"corpus package {pkg} ({index[pkg]['program']}) entry {e}: path {paths[0]} has signature "
                          f"{(b or {}).get(paths[0])}, pinned {a.get(paths[0])} ({len(ents)} entr{'y' if len(ents) == 1 else 'ies'} differ)",
                          {"mode": "corpus", "pkg": pkg, "before": (lambda L: L[(L.index(pkg) // CORPUS_CHUNK) * CORPUS_CHUNK: L.index(pkg)])(sorted(pinned))}))
    return probs, len(pinned), sum(len(v) for v in pinned.values())


# ------------------------------------------------------------------ (D) __main__ script and IPython cells

SCRIPT = '''import sys, json
sys.path.insert(0, {repo!r})
import logging
logging.disable(logging.CRITICAL)
import dds
from dds.store import Store, MemoryStore
X = 5
def helper():
    return X + 1
def leaf():
    return "leaf%d" % helper()
def double():
    return X * 2
def pipeline():
    a = dds.keep("/s/leaf", leaf)
    b = dds.keep("/s/double", double)
    return (a, b)
class Cap(MemoryStore):
    seen = {{}}
    def sync_paths(self, paths):
        Cap.seen.update(dict((str(k), str(v)) for k, v in paths.items()))
        return super().sync_paths(paths)
'''
SCRIPT_MAIN = SCRIPT + '''dds.set_store(Cap())
dds.eval(pipeline)
print("SIGS " + json.dumps(Cap.seen, sort_keys=True))
'''


def check_placements():
    """the same text as a package module, as a __main__ script and in IPython cells (defined, then re-defined)"""
    probs = []
    root = tempfile.mkdtemp(prefix="ddsvt_c03p_")
    env = dict(os.environ, PYTHONDONTWRITEBYTECODE="1", PYTHONHASHSEED="3")
    n = 0
    try:
        text = SCRIPT.format(repo=core.REPO)
        open(os.path.join(root, "script.py"), "w").write(SCRIPT_MAIN.format(repo=core.REPO))
        os.makedirs(os.path.join(root, "pk"))
        open(os.path.join(root, "pk", "__init__.py"), "w").write("")
        open(os.path.join(root, "pk", "mod.py"), "w").write(text)
        open(os.path.join(root, "runpk.py"), "w").write(
            f"import sys, json\nsys.path.insert(0, {root!r})\nsys.path.insert(0, {core.REPO!r})\nimport dds\ndds.accept_module('pk')\nimport pk.mod as m\n"
            "dds.set_store(m.Cap())\ndds.eval(m.pipeline)\nprint('SIGS ' + json.dumps(m.Cap.seen, sort_keys=True))\n")
        cells = text.split("class Cap")[0]
        ip = ("import sys, json\nsys.path.insert(0, %r)\nfrom IPython.core.interactiveshell import InteractiveShell\nsh = InteractiveShell.instance()\n"
              "src = %r\ncap = %r\nouts = []\n"
              "for rnd in range(2):\n"
              "    r = sh.run_cell(src)\n    assert r.success, r\n    r = sh.run_cell(cap + 'dds.set_store(Cap())\\ndds.eval(pipeline)\\n_sig = dict(Cap.seen)')\n    assert r.success, r\n"
              "    outs.append(sh.user_ns['_sig'])\n"
              "print('SIGS ' + json.dumps(outs[0], sort_keys=True))\nprint('SIGS2 ' + json.dumps(outs[1], sort_keys=True))\n") % (core.REPO, cells, "class Cap" + text.split("class Cap")[1])
        open(os.path.join(root, "runip.py"), "w").write(ip)
        got = {}
        for name, script in (("package", "runpk.py"), ("script", "script.py"), ("ipython", "runip.py")):
            p = subprocess.run([core.PY, os.path.join(root, script)], capture_output=True, text=True, env=env, cwd=root, timeout=300)
            n += 1
            for line in p.stdout.splitlines():
                if line.startswith("SIGS "):
                    got[name] = json.loads(line[5:])
                if line.startswith("SIGS2 "):
                    got[name + "_redefined"] = json.loads(line[6:])
            if name not in got:
                probs.append((f"C03|placement|{name}|fails", f"evaluating the pipeline as {name} failed: {(p.stderr or p.stdout)[-300:]}", {"mode": "placement"}))
        ref = got.get("package")
        for name, sig in got.items():
            if ref is not None and sig != ref:
                probs.append((f"C03|placement|{name}|differs", f"signatures as {name} {sig} differ from the package module's {ref}", {"mode": "placement"}))
    finally:
        shutil.rmtree(root, ignore_errors=True)
    return probs, n


def run(tier, seed):
    res = Result(P, "model_checking")
    # (A) environments, as parallel real interpreters
    envs = environments(tier, seed)
    nsh = 2 if len(envs) <= 9 else 1
    parts = pool.pmap(_tables_job, [(n, dict(j, shard=[i, nsh])) for n, j in envs for i in range(nsh)], chunk=1)
    tabs = {}
    for n, t in parts:
        tabs.setdefault(n, {}).update(t)
    base = tabs["base"]
    nkeys = len(base)
    for name, t in tabs.items():
        if name == "base":
            continue
        diff = sorted(k for k in set(base) | set(t) if base.get(k) != t.get(k))
        if diff:
            k = diff[0]
            res.violations.append(Violation(P, f"C03|environment|{name.split('=')[0].split('+')[0]}",
                                            f"environment {name}: {len(diff)} of {nkeys} (program, variant, entry) signature maps differ from the base environment, e.g. {k}: "
                                            f"{t.get(k)} vs {base.get(k)}", {"mode": "env", "env": name, "tier": tier, "seed": seed}))
    # (B) histories inside one interpreter
    items = [it for it in driver.plan("quick", P) if it[2] == "memory" or it[0]["key"].startswith(("var|type=int|access=name", "body|pos=self"))]
    if tier == "quick":
        items = [(sp, ents[:2], st, d, o, se) for sp, ents, st, d, o, se in items
                 if (not sp["key"].startswith("var|") or sp["id"].endswith(("/direct", "/helper2"))) and "ctx=" not in sp["key"].replace("ctx=stmt", "")]
    hres, outs = driver.run_plan(P, "model_checking", items)
    res.violations += hres.violations
    # (C) pinned corpus
    cprobs, npk, nent = check_corpus()
    for k, what, case in cprobs:
        res.violations.append(Violation(P, k, what, case))
    # (D) placements
    pprobs, nproc = check_placements()
    for k, what, case in pprobs:
        res.violations.append(Violation(P, k, what, case))
    cov = hres.coverage
    res.coverage = dict(states=cov["states"] + nkeys * len(envs), transitions=cov["transitions"] + nkeys * len(envs) + nent + nproc,
                        traces_validated_against_impl=cov["transitions"] + nkeys * len(envs) + nent + nproc,
                        environments=[n for n, _ in envs], table_rows_per_environment=nkeys, histories=cov["histories"],
                        pinned_packages=npk, pinned_entries=nent, placement_interpreters=nproc, exhaustive=True,
                        rule="(A) signature map of every (program, variant, entry) of the family recomputed in real interpreters differing in PYTHONHASHSEED, cwd, "
                             "package directory, store kind, extra_debug (option and per call) and graph export, compared with the base table; (B) all histories "
                             "of the C01 plan with the oracle 'signatures are a function of (program, variant, entry)'; (C) pinned corpus of committed sources vs "
                             "committed signatures; (D) package module vs __main__ script vs IPython cells incl. re-definition",
                        samples=cov["samples"][:2] + [sorted(base)[0], sorted(base)[-1]])
    res.assumptions = ["the pinned corpus was produced by this tree after its 'fix:' commits; it is read-only for the check"]
    return res


def replay(case):
    m = case.get("mode")
    if m == "hist":
        return driver.replay(P, case)
    if m == "corpus":
        # the packages evaluated before it in the same process come first (hidden per-process state may be what matters)
        probs, _, _ = check_corpus(only=set(case.get("before", [])) | {case["pkg"]})
        return [Violation(P, k, what, c) for k, what, c in probs if c["pkg"] == case["pkg"]]
    if m == "placement":
        probs, _ = check_placements()
        return [Violation(P, k, what, c) for k, what, c in probs]
    if m == "env":
        envs = dict(environments(case["tier"], case["seed"]))
        tabs = dict(pool.pmap(_tables_job, [("base", envs["base"]), (case["env"], envs[case["env"]])], chunk=1))
        if tabs["base"] != tabs[case["env"]]:
            return [Violation(P, f"C03|environment|{case['env'].split('=')[0].split('+')[0]}", "tables differ", case)]
        return []
    raise core.HarnessError(m)
