"""Shared data structures and helpers for all checks."""
import fnmatch
import hashlib
import json
import os
import shutil
import sys
import tempfile
import time
from dataclasses import dataclass, field
from typing import Any, Dict, List, Optional

VERIF = os.path.dirname(os.path.dirname(os.path.abspath(__file__)))
REPO = os.environ.get("VERIF_REPO", "/repo")
PY = "/venv/bin/python"


def ensure_repo_dds():
    """Import dds from the working tree of /repo and nothing else."""
    if REPO not in sys.path[:1]:
        sys.path.insert(0, REPO)
    import logging
    logging.disable(logging.CRITICAL)
    import dds  # noqa

    f = os.path.realpath(dds.__file__)
    if not f.startswith(os.path.realpath(REPO) + os.sep):
        raise HarnessError(f"dds imported from {f}, not from {REPO}")
    return dds


class HarnessError(Exception):
    """Something is wrong with the machinery (never a finding). Exit code 2."""


@dataclass
class Violation:
    prop: str
    key: str  # cause key, computed from the failing case
    what: str  # human readable one-liner
    replay: Dict[str, Any]  # everything needed to re-run this single case

    def digest(self) -> str:
        return hashlib.sha1(
            json.dumps([self.prop, self.key, self.replay], sort_keys=True, default=repr).encode()
        ).hexdigest()[:16]


@dataclass
class Result:
    prop: str
    level: str
    violations: List[Violation] = field(default_factory=list)
    coverage: Dict[str, Any] = field(default_factory=dict)
    assumptions: List[str] = field(default_factory=list)
    notes: List[str] = field(default_factory=list)


def seed() -> int:
    try:
        return int(os.environ.get("VERIF_SEED", "0"))
    except ValueError:
        return 0


def ncpu() -> int:
    try:
        return max(1, min(16, len(os.sched_getaffinity(0))))
    except Exception:
        return 4


class Scratch:
    """Scratch directory outside /repo and /verif, removed on exit."""

    def __init__(self, tag: str = "vt"):
        base = os.environ.get("VERIF_SCRATCH") or tempfile.gettempdir()
        self.path = tempfile.mkdtemp(prefix=f"ddsvt_{tag}_", dir=base)

    def __enter__(self):
        return self.path

    def __exit__(self, *a):
        shutil.rmtree(self.path, ignore_errors=True)


# ---------------------------------------------------------------- known findings


@dataclass
class Finding:
    prop: str
    pattern: str
    what: str


def load_findings(path: Optional[str] = None) -> List[Finding]:
    path = path or os.path.join(VERIF, "known_findings.txt")
    out: List[Finding] = []
    if not os.path.exists(path):
        return out
    for line in open(path, encoding="utf-8"):
        line = line.strip()
        if not line or line.startswith("#") or not line.startswith("finding:"):
            continue  # "fixed:" lines are documentation only and suppress nothing
        body = line[len("finding:"):].strip()
        head, _, what = body.partition("::")
        toks = dict(t.split("=", 1) for t in head.split() if "=" in t)
        if "property" in toks and "key" in toks:
            out.append(Finding(toks["property"], toks["key"], what.strip()))
    return out


def match_finding(v: Violation, findings: List[Finding]) -> Optional[Finding]:
    for f in findings:
        if f.prop == v.prop and fnmatch.fnmatchcase(v.key, f.pattern):
            return f
    return None


def exc_tag(e: BaseException) -> str:
    code = getattr(e, "error_code", None)
    if code is not None:
        return f"{type(e).__name__}[{getattr(code, 'name', code)}]"
    return exc_name(e)


def exc_name(e) -> str:
    t = e if isinstance(e, type) else type(e)
    return t.__name__ if t.__module__ == "builtins" else f"{t.__module__}.{t.__name__}"


def is_dds_exc(e: BaseException) -> bool:
    return type(e).__name__ == "DDSException" and type(e).__module__.startswith("dds")


class Timer:
    def __init__(self):
        self.t0 = time.perf_counter()

    def s(self) -> float:
        return round(time.perf_counter() - self.t0, 3)
