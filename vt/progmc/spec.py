"""Program specs: rendering to real Python files, edit cubes and cone fingerprints (DESIGN 4.1).

A spec is plain JSON-serialisable data:
  {"id": str, "modules": ["lib", "main", ...]               (import order; dotted names allowed)
   "vars":  [{"name", "module", "values": [expr...], "access": "from"|"attr"}]
   "funcs": [{"name", "module", "params": [[name, default_expr|None]...], "datafn": path|None, "cls": None|"C",
              "body": [item...], "tags": int}]
   "ext":   {"funcs": [...], "vars": [...]}                  (non-accepted package vx<N>, same shapes)
   "entries": {"name": {"kind": "eval"|"keep"|"call", "fn", "path", "args": [expr], "kwargs": [[n, expr]]}}
   "eps": [{"id", "kind", "n"}]}                             (edit points; a variant maps id -> index)
Items of a function body (one statement each, result bound to _<i>):
  {"k": "read", "var"} {"k": "call", "fn", "form", "args": [A]} {"k": "keep", "path", "fn", "args": [A], "kwargs": [[n, A]]}
  {"k": "load", "path"} {"k": "method", "cls", "meth"} {"k": "const", "expr"} {"k": "hof", "fn"} {"k": "ext", "fn"|"var"}
  optional "ctx": syntactic context of the statement.
Argument forms A: {"lit": expr} {"ep": id} (literal chosen by an edit point) {"local": i} {"var": name} {"param": name}
  {"inline": fn} (nested call h()) {"ml": [A]} (expression continued over several lines)
"""
import copy
import itertools
import json

HEADER = "from collections import OrderedDict\nfrom pathlib import PurePosixPath\nimport pipelog\nimport pipehelp\nimport dds\n"


def variants(spec):
    eps = spec.get("eps", [])
    ids = [e["id"] for e in eps]
    for combo in itertools.product(*[range(e["n"]) for e in eps]):
        yield dict(zip(ids, combo))


def v0(spec):
    return {e["id"]: 0 for e in spec.get("eps", [])}


def vkey(variant):
    return json.dumps(variant, sort_keys=True)


def _fn(spec, name):
    for f in spec["funcs"]:
        if f["name"] == name:
            return f
    for f in spec.get("ext", {}).get("funcs", []):
        if f["name"] == name:
            return f
    raise KeyError(name)


def _var(spec, name):
    for v in spec["vars"]:
        if v["name"] == name:
            return v
    for v in spec.get("ext", {}).get("vars", []):
        if v["name"] == name:
            return v
    raise KeyError(name)


def var_value(spec, variant, name):
    v = _var(spec, name)
    return v["values"][variant.get(name, 0) % len(v["values"])]


def _modalias(mod):
    return "m_" + mod.replace(".", "_")


def norm_path(p):
    """empty segments do not count: '/a//b/' is the path '/a/b'"""
    return "/" + "/".join(x for x in str(p).split("/") if x)


def effective(spec, variant):
    """the program of a variant in which some functions are deleted ('drop:<fn>' edit points): the functions are gone and the
    items that called them are constants"""
    dropped = {k[5:] for k, v in (variant or {}).items() if k.startswith("drop:") and v}
    if not dropped:
        return spec
    sp = dict(spec)
    sp["funcs"] = []
    for f in spec["funcs"]:
        if f["name"] in dropped:
            continue
        f = dict(f)
        for part in ("body", "init", "clsattr"):
            if part in f:
                f[part] = [({"k": "const", "expr": "'gone'"} if (it.get("fn") in dropped or it.get("cls") in dropped) else it) for it in f[part]]
        sp["funcs"].append(f)
    return sp


class Renderer:
    def __init__(self, spec, variant, pkg, xpkg):
        spec = effective(spec, variant)
        self.spec, self.variant, self.pkg, self.xpkg = spec, variant, pkg, xpkg
        self.ext_names = {f["name"] for f in spec.get("ext", {}).get("funcs", [])} | {v["name"] for v in spec.get("ext", {}).get("vars", [])}

    # ---- references to symbols from inside module `mod`
    def sym(self, mod, name, home, form, imports):
        """expression that denotes symbol `name` (living in module `home`) inside module `mod`."""
        if home == mod:
            return name
        if home.startswith("H:"):
            raise ValueError("helper-package functions are only reached by a function-level module import")
        base = self.xpkg if name in self.ext_names else self.pkg
        full = f"{base}.{home}"
        if form in (None, "from", "plain", "hof"):
            imports.add(f"from {full} import {name}")
            return name
        if form == "alias":
            imports.add(f"from {full} import {name} as {name}_al")
            return f"{name}_al"
        if form == "attr":
            parent, _, leaf = full.rpartition(".")
            imports.add(f"from {parent} import {leaf} as {_modalias(home)}")
            return f"{_modalias(home)}.{name}"
        if form == "import_as":
            imports.add(f"import {full} as {_modalias(home)}")
            return f"{_modalias(home)}.{name}"
        if form == "import_full":
            imports.add(f"import {full}")
            return f"{full}.{name}"
        if form == "relative":
            depth = mod.count(".") + 1
            imports.add(f"from {'.' * depth}{home} import {name}")
            return name
        if form == "star":
            imports.add(f"from {full} import *")
            return name
        if form == "ext_facade":
            # the accepted function is reached through a NON-accepted module of another top-level package that re-exports it
            imports.add(f"from {self.xpkg} import util as m_facade")
            return f"m_facade.{name}"
        if form == "reexport":
            imports.add(f"from {base}.reexp import {name}")
            return name
        raise ValueError(form)

    def epv(self, x):
        """resolves an "@<edit point id>" placeholder to the value chosen by the variant"""
        if isinstance(x, str) and x.startswith("@"):
            ep = next(e for e in self.spec["eps"] if e["id"] == x[1:])
            return ep["values"][self.variant.get(x[1:], 0)]
        return x

    def arg(self, a, mod, imports):
        if "lit" in a:
            return self.epv(a["lit"])
        if "ep" in a:
            ep = next(e for e in self.spec["eps"] if e["id"] == a["ep"])
            return ep["values"][self.variant.get(a["ep"], 0)]
        if "local" in a:
            return f"_{a['local']}"
        if "var" in a:
            v = _var(self.spec, a["var"])
            return self.sym(mod, a["var"], v["module"], v.get("access"), imports)
        if "param" in a:
            return a["param"]
        if "inline" in a:
            f = _fn(self.spec, a["inline"])
            return self.sym(mod, a["inline"], f["module"], "from", imports) + ("" if a.get("as_function") else "()")
        if "ml" in a:
            parts = [self.arg(x, mod, imports) for x in a["ml"]]
            return "(str(" + ")\n            + str(".join(parts) + "))"
        raise ValueError(a)

    def item(self, i, it, mod, imports):
        k = it["k"]
        if k == "read":
            v = _var(self.spec, it["var"])
            e = "str(" + self.sym(mod, it["var"], v["module"], v.get("access"), imports) + ")"
        elif k == "const":
            e = self.epv(it["expr"])
        elif k == "call" and it.get("form") == "local_module_import":
            # a separate accepted top-level module that nothing else imports is imported inside the function body
            f = _fn(self.spec, it["fn"])
            hmod = self.pkg.replace("vp", "vh").replace("vr", "vh") + "." + f["module"][2:]
            return [f"import {hmod}", f"_{i} = {hmod}.{it['fn']}()"]
        elif k == "call" and it.get("form") == "local_import_full":
            # 'import pkg.sub.mod' written inside the function body, the callee named in full
            f = _fn(self.spec, it["fn"])
            full = f"{self.pkg}.{f['module']}"
            return [f"import {full}", f"_{i} = {full}.{it['fn']}()"]
        elif k == "call" and it.get("form") == "local_import":
            # the callee is imported inside the function body, not at module level
            f = _fn(self.spec, it["fn"])
            return [f"from {self.pkg}.{f['module']} import {it['fn']}", f"_{i} = {it['fn']}()"]
        elif k == "call":
            f = _fn(self.spec, it["fn"])
            args = ", ".join(self.arg(a, mod, imports) for a in it.get("args", []))
            e = self.sym(mod, it["fn"], f["module"], it.get("form", "from"), imports) + f"({args})"
        elif k == "hof" and it.get("form") == "local_module_import":
            # the package is imported at module level, its submodule only inside the body; the function is handed over by name
            f = _fn(self.spec, it["fn"])
            hpkg = self.pkg.replace("vp", "vh").replace("vr", "vh")
            hmod = hpkg + "." + f["module"][2:]
            imports.add(f"import {hpkg}")
            return [f"import {hmod}", f"_{i} = pipehelp.call0({hmod}.{it['fn']})"]
        elif k == "hof":
            f = _fn(self.spec, it["fn"])
            e = "pipehelp.call0(" + self.sym(mod, it["fn"], f["module"], it.get("form", "from"), imports) + ")"
        elif k == "method":
            f = _fn(self.spec, it["cls"])
            e = self.sym(mod, it["cls"], f["module"], it.get("form", "from"), imports) + f"().{it.get('meth', 'm')}()"
        elif k == "keep":
            f = _fn(self.spec, it["fn"])
            fn = self.sym(mod, it["fn"], f["module"], it.get("form", "from"), imports)
            parts = [repr(it["path"]) if not it.get("pathvar") else it["pathvar"], fn]
            if it.get("starargs"):
                # the positional arguments are unpacked from a tuple built at the call: f(*(a, b))
                parts.append("*(" + "".join(self.arg(a, mod, imports) + ", " for a in it.get("args", [])) + ")")
            else:
                parts += [self.arg(a, mod, imports) for a in it.get("args", [])]
            if it.get("starkw"):
                # the keyword arguments are unpacked from a mapping: f(1, **{'y': V})
                parts.append("**{" + ", ".join(f"{n!r}: {self.arg(a, mod, imports)}" for n, a in it.get("kwargs", [])) + "}")
            else:
                parts += [f"{n}={self.arg(a, mod, imports)}" for n, a in it.get("kwargs", [])]
            if it.get("multiline"):
                e = "dds.keep(\n        " + ",\n        ".join(parts) + ",\n    )"
            else:
                e = "dds.keep(" + ", ".join(parts) + ")"
        elif k == "load":
            e = f"dds.load({it['path']!r})" + (f".{it['method']}" if it.get("method") else "")   # e.g. .upper(), .strip('/zzz')
        elif k == "eval":
            f = _fn(self.spec, it["fn"])
            e = "dds.eval(" + self.sym(mod, it["fn"], f["module"], "from", imports) + ")"
        elif k == "raw":
            return [it["text"], f"_{i} = None"]
        elif k == "shadow" and it["how"] in ("lambda_assigned", "nested_def_param"):
            # an inner scope whose parameter is called like a module-level name; the inner scope does not read the module's
            v = it["var"]
            if it["how"] == "lambda_assigned":
                return [f"_f{i} = lambda {v}: {v}", f"_{i} = _f{i}(1)"]
            return [f"def _inner{i}({v}):", f"    return {v}", f"_{i} = _inner{i}(1)"]
        elif k == "shadow":
            # a construct that binds a local name equal to a module variable's name: the module variable is NOT read
            v = it["var"]
            e = {"listcomp": f"[{v} for {v} in range(3)][1]", "genexp": f"list({v} for {v} in range(3))[1]",
                 "dictcomp": f"{{{v}: {v} for {v} in range(3)}}[1]", "setcomp": f"sorted({{{v} for {v} in range(3)}})[1]",
                 "lambda_param": f"(lambda {v}: {v})(1)", "lambda_default": f"(lambda {v}=1: {v})()",
                 "walrus_comp": f"[({v}_ := q) for q in range(3)][1]"}[it["how"]]
        elif k == "ext":
            if "fn" in it:
                f = _fn(self.spec, it["fn"])
                e = self.sym(mod, it["fn"], f["module"], it.get("form", "from"), imports) + "()"
            else:
                v = _var(self.spec, it["var"])
                e = "str(" + self.sym(mod, it["var"], v["module"], it.get("form", "from"), imports) + ")"
        else:
            raise ValueError(k)
        return self.in_ctx(i, e, it.get("ctx"))

    def in_ctx(self, i, e, ctx):
        t = f"_{i}"
        if not ctx or ctx == "stmt":
            return [f"{t} = {e}"]
        table = {
            "if": [f"{t} = None", "if pipehelp.true():", f"    {t} = {e}"],
            "else": [f"{t} = None", "if pipehelp.false():", "    pass", "else:", f"    {t} = {e}"],
            "thread": [f"{t} = pipehelp.in_thread(lambda: {e})"],
            "lambda_param": [f"_f{i} = lambda row: row", f"{t} = _f{i}({e})"],
            "except_as": ["try:", f"    {t} = {e}", "except KeyError as err:", f"    {t} = str(err)"],
            "nested_def_param": ["def _inner(row):", "    return row", f"{t} = _inner({e})"],
            # names bound by the patterns of a match statement (capture, star, mapping rest)
            "match_capture": [f"{t} = None", f"match {{'kind': {e}, 'more': [1, 2]}}:", "    case {'kind': kindcap, 'more': [firstcap, *restcap], **otherscap}:",
                              f"        {t} = pipehelp.first(kindcap, firstcap, restcap, otherscap)"],
            "if_false": [f"{t} = None", "if pipehelp.false():", f"    {t} = {e}"],   # written, analysed, never executed
            "if_flag": [f"{t} = None", "if FLAG:", f"    {t} = {e}"],   # executed or not, depending on the tracked variable FLAG
            "for": [f"{t} = None", "for _k in range(1):", f"    {t} = {e}"],
            "while": [f"{t} = None", f"while {t} is None:", f"    {t} = {e}"],
            "with": [f"with pipehelp.ctx():", f"    {t} = {e}"],
            "try": ["try:", f"    {t} = {e}", "except KeyError:", f"    {t} = None"],
            "finally": ["try:", "    pass", "finally:", f"    {t} = {e}"],
            "listcomp": [f"{t} = [{e} for _k in range(1)][0]"],
            "genexp": [f"{t} = list({e} for _k in range(1))[0]"],
            "dictlit": [f"{t} = {{'k': {e}}}['k']"],
            "fstring": [f"{t} = f\"{{{e}}}\""],
            "ifexp": [f"{t} = {e} if pipehelp.true() else None"],
            "boolop": [f"{t} = pipehelp.false() or {e}"],
            "kwarg": [f"{t} = pipehelp.ident(x={e})"],
            "star": [f"{t} = pipehelp.first(*[{e}])"],
            "subscript": [f"{t} = [{e}][0]"],
            "augassign": [f"{t} = ''", f"{t} += {e}"],
            "annassign": [f"{t}: str = {e}"],
            "walrus": [f"({t} := {e})"],
            "assert": [f"{t} = None", f"assert ({t} := {e}) is not None"],
            "multiline": [f"{t} = (", f"    {e}", ")"],
            "nested_def": ["def _inner():", f"    return {e}", f"{t} = _inner()"],
            "lambda_arg": [f"{t} = pipehelp.ident(x={e})"],
            "tuple": [f"{t}, _z = {e}, 0"],
        }
        return table[ctx]

    def func(self, f, imports):
        mod = f["module"]
        lines = []
        name = f["name"]
        tag = self.variant.get("tag:" + name, 0)
        params = ", ".join(p if d is None else f"{p}={self.epv(d)}" for p, d in f.get("params", []))
        if f.get("datafn"):
            lines.append(f"@dds.data_function({f['datafn']!r})")
        ind = "    "
        if f.get("cls") and f.get("inherit_only"):
            return [f"class {name}({f['base']}):", "    pass"]
        if f.get("cls"):
            lines.append(f"class {name}({f.get('base', 'object')}):")
            for i, it in enumerate(f.get("clsattr", [])):
                for l in self.item(i, it, mod, imports):
                    lines.append("    " + l.replace(f"_{i} = ", f"A{i} = ", 1))
            init_reads = [it for it in f.get("init", [])]
            lines.append("    def __init__(self):")
            if init_reads:
                for i, it in enumerate(init_reads):
                    for l in self.item(i, it, mod, imports):
                        lines.append("        " + l)
                lines.append("        self.v = " + " + ".join(f"str(_{i})" for i in range(len(init_reads))))
            else:
                lines.append("        self.v = ''")
            lines.append("    def m(self):")
            ind = "        "
        else:
            lines.append(f"def {name}({params}):")
        cmt = "  # c%d" % self.variant["cmt:" + name] if self.variant.get("cmt:" + name) else ""
        if f.get("nolog"):
            # a function that references no name of a non-accepted module at all (its executions are not observable)
            if cmt:
                lines.append(f"{ind}pass{cmt}")
        else:
            lines.append(f"{ind}pipelog.hit({name!r}){cmt}")
        for i, it in enumerate(f.get("body", [])):
            for l in self.item(i, it, mod, imports):
                lines.append(ind + l)
        def pstr(p):
            # '*rest' / '**kw' catch-all parameters
            return f"str(sorted({p[2:]}.items()))" if p.startswith("**") else f"str({p.lstrip('*')})"
        parts = ([] if f.get("no_param_str") else [pstr(p) for p, _ in f.get("params", [])]) + [f"str(_{i})" for i in range(len(f.get("body", [])))]
        if f.get("cls"):
            parts.append("self.v")
            parts += [f"str(self.A{i})" for i in range(len(f.get("clsattr", [])))]
        for k in range(self.variant.get("pad:" + name, 0)):
            lines.append(f"{ind}_pad{k} = 0")
        if f.get("returns_none"):
            lines.append(f"{ind}_t = \"{name}#{tag}\"")   # (the body text still carries the tag)
            lines.append(f"{ind}return None")
            return lines
        lines.append(f"{ind}return \"{name}#{tag}(\" + \",\".join([{', '.join(parts)}]) + \")\"" + (f" + {f['suffix']!r}" if f.get("suffix") else ""))
        return lines

    def module(self, mod):
        imports = set()
        body = []
        fs = [f for f in self.spec["funcs"] if f["module"] == mod]
        if self.variant.get("reorder"):
            # reorder definitions: independent functions first reversed where legal (decorators need nothing at def time)
            fs = list(reversed(fs))
        for v in self.spec["vars"]:
            if v["module"] == mod:
                body.append(f"{v['name']} = {var_value(self.spec, self.variant, v['name'])}")
                if "datetime." in body[-1]:
                    imports.add("import datetime")
                if "math." in body[-1]:
                    imports.add("import math")
                if "pathlib." in body[-1]:
                    imports.add("import pathlib")
        if self.variant.get("unrel") and mod == self.spec["modules"][-1]:
            body.append("UNRELATED_VAR = %d" % self.variant["unrel"])
        for idx, f in enumerate(fs):
            body.append("")
            if self.variant.get("unrel") and idx == 1:
                body += ["def unrelated_%d():" % self.variant["unrel"], "    return %d" % self.variant["unrel"], "", "# a comment between definitions", ""]
            body += self.func(f, imports)
        text = HEADER + "\n".join(sorted(imports)) + "\n" + "\n".join(body) + "\n"
        if self.spec.get("dds_names"):
            # the program says 'from dds import keep, load, data_function' and uses the bare names
            text = text.replace("import dds\n", "import dds\nfrom dds import keep, load, data_function\n", 1)
            text = text.replace("@dds.data_function(", "@data_function(").replace("dds.keep(", "keep(").replace("dds.load(", "load(")
        return text

    def ext_module(self):
        imports = set()
        ext = self.spec.get("ext") or {}
        body = []
        for v in ext.get("vars", []):
            body.append(f"{v['name']} = {var_value(self.spec, self.variant, v['name'])}")
        for f in ext.get("funcs", []):
            body.append("")
            body += self.func(dict(f, module="util"), imports)
        reexp = "".join(f"from {self.pkg}.{home} import {name}\n" for home, name in ext.get("reexports", []))
        return "import pipelog\nimport pipehelp\nimport dds\n" + reexp + "\n".join(body) + "\n"

    def files(self):
        out = {}
        pk = self.pkg
        dirs = set()
        hmods = sorted({f["module"][2:] for f in self.spec["funcs"] if f["module"].startswith("H:")})
        if hmods and pk.startswith("vp"):
            hp = pk.replace("vp", "vh")
            out[f"{hp}/__init__.py"] = ""
            for hm in hmods:
                body = []
                imps = set()
                for f in self.spec["funcs"]:
                    if f["module"] == "H:" + hm:
                        body += [""] + self.func(dict(f, module=hm), imps)
                out[f"{hp}/{hm}.py"] = "import pipelog\nimport pipehelp\nimport dds\n" + "".join(i + "\n" for i in sorted(imps)) + "\n".join(body) + "\n"
        for mod in self.spec["modules"]:
            parts = mod.split(".")
            for i in range(len(parts)):
                dirs.add("/".join(parts[:i]))
            out[f"{pk}/" + "/".join(parts) + ".py"] = self.module(mod)
        for d in dirs:
            out[f"{pk}/" + (d + "/" if d else "") + "__init__.py"] = ""
        if self.spec.get("reexport"):
            lines = []
            for name in self.spec["reexport"]:
                home = (_fn(self.spec, name) if any(f["name"] == name for f in self.spec["funcs"]) else _var(self.spec, name))["module"]
                lines.append(f"from {pk}.{home} import {name}")
            out[f"{pk}/reexp.py"] = "\n".join(lines) + "\n"
        if self.spec.get("ext"):
            out[f"{self.xpkg}/__init__.py"] = ""
            out[f"{self.xpkg}/util.py"] = self.ext_module()
        return out


def render(spec, variant, pkg, xpkg):
    return Renderer(spec, variant, pkg, xpkg).files()


# ------------------------------------------------------------------ kept nodes and cone fingerprints

def kept_nodes(spec):
    """[(path, fn name)] of all kept nodes of the program (data functions and keep calls), static."""
    out = []
    for f in spec["funcs"]:
        if f.get("datafn"):
            out.append((f["datafn"], f["name"]))
        for it in f.get("body", []):
            if it["k"] == "keep":
                out.append((it["path"], it["fn"]))
    for e in spec.get("entries", {}).values():
        if e["kind"] == "keep":
            out.append((e["path"], e["fn"]))
    return sorted(set(out))


class Cone:
    """Cone fingerprints computed from the spec and the rendered text only (never from dds)."""

    def __init__(self, spec, variant, served=None, pkg="PKG"):
        spec = effective(spec, variant)
        self.spec, self.variant = spec, variant
        self.r = Renderer(spec, variant, pkg, "XPKG")  # the text of a function may spell the package name (import p.m; p.m.f())
        self.served = served or {}
        self.memo = {}

    def text(self, fname):
        f = _fn(self.spec, fname)
        return "\n".join(self.r.func(f, set()))

    def cf(self, fname, binding, stack=()):
        """binding: tuple of literal exprs (static) or ('ctx', <context fingerprint>)"""
        key = (fname, binding)
        if key in self.memo:
            return self.memo[key]
        if fname in stack:
            return ("cycle", fname)
        f = _fn(self.spec, fname)
        if f in self.spec.get("ext", {}).get("funcs", []):
            res = ("ext", fname)  # only the name/path of a non-accepted callable is an input
            self.memo[key] = res
            return res
        reads, calls, loads = [], [], []
        items = list(f.get("clsattr", [])) + list(f.get("init", [])) + list(f.get("body", []))
        if f.get("inherit_only"):
            res = ("inherits", self.text(fname), self.cf(f["base"], binding, stack + (fname,)))
            self.memo[key] = res
            return res
        ownctx = ("ctxof", fname, binding, self.text(fname))
        for idx, it in enumerate(items):
            k = it["k"]
            if k == "read":
                reads.append((it["var"], var_value(self.spec, self.variant, it["var"])))
            elif k == "ext" and "var" in it:
                reads.append(("ext", it["var"]))
            elif k in ("call", "hof", "method", "ext", "eval"):
                callee = it.get("fn") or it.get("cls")
                b = self.binding(callee, it.get("args", []), it.get("kwargs", []), fname, binding, idx)
                calls.append(self.cf(callee, b, stack + (fname,)))
            elif k == "keep":
                b = self.binding(it["fn"], it.get("args", []), it.get("kwargs", []), fname, binding, idx)
                calls.append(self.cf(it["fn"], b, stack + (fname,)))
            elif k == "load":
                loads.append((norm_path(it["path"]), self.served.get(norm_path(it["path"]))))
            for a in it.get("args", []) + [x for _, x in it.get("kwargs", [])]:
                for leaf in ([a] if "ml" not in a else a["ml"]):
                    if "var" in leaf:
                        reads.append((leaf["var"], var_value(self.spec, self.variant, leaf["var"])))
                    if "inline" in leaf:
                        calls.append(self.cf(leaf["inline"], (), stack + (fname,)))
        res = ("fn", self.text(fname), tuple(sorted(reads, key=repr)), binding, tuple(calls), tuple(loads))
        self.memo[key] = res
        return res

    def binding(self, callee, args, kwargs, caller, caller_binding, idx):
        f = _fn(self.spec, callee)
        params = f.get("params", [])
        vals = {}
        static = True
        for i, a in enumerate(args):
            if i < len(params):
                vals[params[i][0]] = a
        for n, a in kwargs:
            vals[n] = a
        out = []

        def litval(a):
            if "lit" in a:
                return self.r.epv(a["lit"])
            if "ep" in a:
                ep = next(e for e in self.spec["eps"] if e["id"] == a["ep"])
                return ep["values"][self.variant.get(a["ep"], 0)]
            return None
        named = {p for p, _ in params}
        for pi, (p, d) in enumerate(params):
            if p.startswith("*"):
                # catch-all parameters: every surplus positional / every keyword that names no parameter
                extra = [(n, a) for n, a in kwargs if n not in named] if p.startswith("**") else [(None, a) for a in args[pi:]]
                lits = [(n, litval(a)) for n, a in extra]
                if any(v is None for _, v in lits) or (not extra and p.startswith("**")):
                    static = False
                else:
                    out.append(("S", tuple(lits)))
                continue
            if p in vals:
                a = vals[p]
                if "lit" in a:
                    out.append(("L", self.r.epv(a["lit"])))
                elif "ep" in a:
                    ep = next(e for e in self.spec["eps"] if e["id"] == a["ep"])
                    out.append(("L", ep["values"][self.variant.get(a["ep"], 0)]))
                else:
                    static = False
            elif d is not None:
                out.append(("L", self.r.epv(d)))
            else:
                static = False
        if static:
            return tuple(out)
        # call-site context (over-approximated): whole caller text, caller inputs, every other call of the caller
        return ("ctx", caller, caller_binding, self.text(caller), idx, self._siblings(caller, caller_binding, idx))

    def _siblings(self, caller, caller_binding, idx):
        f = _fn(self.spec, caller)
        sib = []
        for j, it in enumerate(f.get("body", [])):
            if j == idx:
                continue
            if it["k"] in ("call", "hof", "method", "keep"):
                callee = it.get("fn") or it.get("cls")
                args = it.get("args", [])
                if all(("lit" in a or "ep" in a) for a in args + [x for _, x in it.get("kwargs", [])]):
                    sib.append(self.cf(callee, self.binding(callee, args, it.get("kwargs", []), caller, caller_binding, j), (caller,)))
                else:
                    sib.append(("rt", callee, j))
            if it["k"] == "read":
                sib.append((it["var"], var_value(self.spec, self.variant, it["var"])))
            if it["k"] == "load":
                sib.append(("load", it["path"], self.served.get(it["path"])))
        # V(g) and the nested calls also comprise what the argument expressions of every call (this one included) read
        for it in f.get("body", []):
            for a in it.get("args", []) + [x for _, x in it.get("kwargs", [])]:
                for leaf in ([a] if "ml" not in a else a["ml"]):
                    if "var" in leaf:
                        sib.append((leaf["var"], var_value(self.spec, self.variant, leaf["var"])))
                    if "inline" in leaf:
                        sib.append(self.cf(leaf["inline"], (), (caller,)))
        return tuple(sib)


def node_cones(spec, variant, entry, served=None, pkg="PKG"):
    """{fn name: set of cone fingerprints of the kept nodes using that function} reachable from the entry."""
    c = Cone(spec, variant, served, pkg)
    spec = c.spec
    out = {}

    def walk(fname, binding, stack):
        if fname in stack:
            return
        f = _fn(spec, fname)
        if f in spec.get("ext", {}).get("funcs", []):
            return
        if f.get("datafn"):
            out.setdefault(fname, set()).add(c.cf(fname, binding))
        for idx, it in enumerate(list(f.get("init", [])) + list(f.get("body", []))):
            k = it["k"]
            if k in ("call", "hof", "method", "keep", "eval"):
                callee = it.get("fn") or it.get("cls")
                b = c.binding(callee, it.get("args", []), it.get("kwargs", []), fname, binding, idx)
                if k == "keep":
                    out.setdefault(callee, set()).add(c.cf(callee, b))
                walk(callee, b, stack + (fname,))
            for a in it.get("args", []) + [x for _, x in it.get("kwargs", [])]:
                for leaf in ([a] if "ml" not in a else a["ml"]):
                    if "inline" in leaf:
                        walk(leaf["inline"], (), stack + (fname,))

    e = spec["entries"][entry]
    f = _fn(spec, e["fn"])
    params = f.get("params", [])
    b = []
    args = list(e.get("args", []))
    kw = dict(e.get("kwargs", []))
    for i, (p, d) in enumerate(params):
        if i < len(args):
            b.append(("L", c.r.epv(args[i])))
        elif p in kw:
            b.append(("L", c.r.epv(kw[p])))
        elif d is not None:
            b.append(("L", c.r.epv(d)))
    b = tuple(b)
    if e["kind"] == "keep":
        out.setdefault(e["fn"], set()).add(c.cf(e["fn"], b))
    walk(e["fn"], b, ())
    return out
