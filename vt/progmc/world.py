"""Execution of generated programs: files, imports, virtual restarts, stores, reference runs, observations."""
import copy
import importlib
import linecache
import os
import shutil
import sys
import types

from . import spec as S

PIPELOG = '''cur = []
fault = None
def hit(name):
    cur.append(name)
    if fault is not None and fault[0] == name:
        raise fault[1]
'''
PIPEHELP = '''import contextlib
def call0(f):
    return f()
def true():
    return True
def false():
    return False
@contextlib.contextmanager
def ctx():
    yield None
def ident(x=None):
    return x
def first(*a):
    return a[0]
def in_thread(f):
    """runs f in a worker thread started (and joined) inside the evaluation"""
    import threading
    out = []
    def run():
        try:
            out.append(("ok", f()))
        except BaseException as e:
            out.append(("exc", e))
    t = threading.Thread(target=run)
    t.start()
    t.join()
    if out[0][0] == "exc":
        raise out[0][1]
    return out[0][1]
class Thing(object):
    """an object of a type dds does not track"""
    def __str__(self):
        return "thing"
'''
REFDDS = '''"""dds-free reference: what plain execution of the same files returns."""
kept = []          # (path, value) in program order of the current evaluation
committed = {}     # path -> value left by earlier evaluations
class RefLoadError(Exception):
    pass
class DDSException(BaseException):
    pass
def _np(path):
    return "/" + "/".join(x for x in str(path).split("/") if x)
def keep(path, fun, *args, **kwargs):
    v = fun(*args, **kwargs)
    kept.append((_np(path), v))
    return v
def eval(fun, *args, dds_export_graph=None, dds_extra_debug=None, dds_stages=None, **kwargs):
    return fun(*args, **kwargs)
def load(path):
    for p, v in reversed(kept):
        if p == _np(path):
            return v
    if _np(path) in committed:
        return committed[_np(path)]
    raise RefLoadError(str(path))
def data_function(path):
    def deco(f):
        import functools
        @functools.wraps(f)
        def w(*a, **k):
            return keep(path, f, *a, **k)
        return w
    return deco
dds_function = data_function
def accept_module(m):
    pass
def set_store(*a, **k):
    pass
'''


def _dds_data_attrs():
    out = {}
    for name, mod in list(sys.modules.items()):
        if mod is None or not (name == "dds" or name.startswith("dds.")):
            continue
        for k, v in vars(mod).items():
            if k.startswith("__"):
                continue
            if isinstance(v, (types.FunctionType, types.ModuleType, type, types.BuiltinFunctionType)):
                continue
            if type(v).__module__ in ("typing", "logging"):
                continue
            if callable(v) and not isinstance(v, (dict, list, set)):
                continue
            out[(name, k)] = v
        # mutable class-level attributes of the library's classes are per-process state too
        for cn, c in vars(mod).items():
            if isinstance(c, type) and getattr(c, "__module__", None) == name:
                for k, v in vars(c).items():
                    if not k.startswith("__") and isinstance(v, (dict, list, set)):
                        out[(name, cn, k)] = v
    return out


def _owner(key):
    return sys.modules[key[0]] if len(key) == 2 else getattr(sys.modules[key[0]], key[1])


def _fresh_copy(v, memo):
    """a new process would build this module-level object again: deep copy where possible, else (thread-local holders, locks,
    ...) a new instance of the same class built without arguments"""
    try:
        return copy.deepcopy(v, memo)
    except Exception:  # noqa
        try:
            return type(v)()
        except Exception:  # noqa
            return v


_EDIT_CLOCK = [1_600_000_000]


class World:
    def __init__(self, scratch):
        import dds  # noqa
        import dds._api, dds.codec, dds._config, dds.introspect, dds._global_ctx, dds.store, dds._lru_store  # noqa
        self.scratch = scratch
        sys.dont_write_bytecode = True
        for n, t in (("pipelog.py", PIPELOG), ("pipehelp.py", PIPEHELP), ("refdds.py", REFDDS)):
            with open(os.path.join(scratch, n), "w") as f:
                f.write(t)
        if scratch not in sys.path:
            sys.path.insert(0, scratch)
        importlib.invalidate_caches()
        self.pipelog = importlib.import_module("pipelog")
        self.refdds = importlib.import_module("refdds")
        importlib.import_module("pipehelp")
        self.pristine = _dds_data_attrs()
        self.n = 0

    def fresh_dds_state(self):
        memo = {}
        for key, v in self.pristine.items():
            setattr(_owner(key), key[-1], _fresh_copy(v, memo))

    def capture_dds_state(self):
        return {key: getattr(_owner(key), key[-1]) for key in self.pristine}

    def install_dds_state(self, img):
        for key, v in img.items():
            setattr(_owner(key), key[-1], v)

    def close(self):
        for k in [k for k in sys.modules if k.startswith(("vp", "vr", "vx")) and k[2:3].isdigit()]:
            del sys.modules[k]
        for n in ("pipelog", "pipehelp", "refdds"):
            sys.modules.pop(n, None)
        if self.scratch in sys.path:
            sys.path.remove(self.scratch)
        self.fresh_dds_state()


class Obs:
    __slots__ = ("status", "value", "exc", "code", "log", "sigs", "stored", "synced", "excobj")

    def __init__(self):
        self.status = None
        self.value = None
        self.exc = None
        self.code = None
        self.log = []
        self.sigs = {}
        self.stored = []
        self.synced = False
        self.excobj = None

    def short(self):
        if self.status == "ok":
            return ("ok", self.value)
        return (self.status, self.exc, self.code)


class Prog:
    """One program instance (one package name) bound to one store that survives virtual restarts."""

    def __init__(self, world, spec, store_kind="memory", pkgroot=None, n_accept_extra=0):
        self.w = world
        world.n += 1
        self.n = world.n
        self.spec = spec
        self.pkg, self.rpkg, self.xpkg = f"vp{self.n}", f"vr{self.n}", f"vx{self.n}"
        self.has_helper_pkg = any(f["module"].startswith("H:") for f in spec["funcs"])
        self.root = pkgroot or world.scratch
        self.store_kind = store_kind
        self.store_dir = os.path.join(world.scratch, f"store{self.n}")
        self.persist = None      # persistent store object (memory / fake dbutils)
        self.capture = None
        self.variant = None
        self.files = {}
        self.ref_committed = {}
        self.extra_accept = [f"padpkg{i}" for i in range(n_accept_extra)]
        self.accept_suffix = ""   # accepted prefix below the top-level package, e.g. ".p1.p2"
        self.accept_first = []    # names accepted before the real prefix (acceptance order matters to some implementations)
        self.images = {}          # second live process of the same program: pid -> (dds state image, store object)
        self.cur_pid = 0
        if self.root not in sys.path:
            sys.path.insert(0, self.root)

    # ------------------------------------------------------------ files and imports
    def write(self, variant):
        fs = S.render(self.spec, variant, self.pkg, self.xpkg)
        rs = S.render(self.spec, variant, self.rpkg, self.xpkg)
        changed = []
        for files in (fs, {k: v for k, v in rs.items() if not k.startswith(self.xpkg)}):
            for rel, text in files.items():
                if self.files.get(rel) != text:
                    p = os.path.join(self.root, rel)
                    os.makedirs(os.path.dirname(p), exist_ok=True)
                    with open(p, "w") as f:
                        f.write(text)
                    # every edit happens at a later time than the one before (seconds apart, like a user's): two writes within
                    # the granularity of the file system's clock would otherwise look like no edit to anything that trusts mtime
                    _EDIT_CLOCK[0] += 7
                    os.utime(p, ns=(_EDIT_CLOCK[0] * 10 ** 9, _EDIT_CLOCK[0] * 10 ** 9))
                    self.files[rel] = text
                    changed.append(rel)
        self.variant = dict(variant)
        return changed

    def purge(self):
        for k in [k for k in sys.modules if k.split(".")[0] in (self.pkg, self.rpkg, self.xpkg, self.pkg.replace("vp", "vh"))]:
            del sys.modules[k]
        linecache.clearcache()
        importlib.invalidate_caches()

    def mod(self, name, ref=False):
        full = (self.rpkg if ref else self.pkg) + "." + name
        if full in sys.modules:
            return sys.modules[full]
        if ref:
            if self.spec.get("ext"):
                importlib.import_module(self.xpkg + ".util")  # the non-accepted package always sees the real dds
            real = sys.modules["dds"]
            sys.modules["dds"] = self.w.refdds
            try:
                # every module of the reference copy binds the stub
                for m in self.spec["modules"] + (["reexp"] if self.spec.get("reexport") else []):
                    importlib.import_module(self.rpkg + "." + m)
            finally:
                sys.modules["dds"] = real
            return sys.modules[full]
        return importlib.import_module(full)

    def reload_all(self):
        """in-process redefinition: re-execute the modules in dependency order (what a user's importlib.reload / autoreload does:
        the line cache is NOT cleared by hand - finding the new text is the library's business)."""
        importlib.invalidate_caches()
        order = list(self.spec["modules"])
        if self.spec.get("reexport"):
            order = order[:-1] + ["reexp"] + order[-1:]   # sources, then the re-exporting module, then its importer
        if self.spec.get("ext") and (self.xpkg + ".util") in sys.modules:
            importlib.reload(sys.modules[self.xpkg + ".util"])
        for k in [k for k in list(sys.modules) if k.startswith(self.pkg.replace("vp", "vh") + ".")]:
            importlib.reload(sys.modules[k])
        for m in order:
            full = self.pkg + "." + m
            if full in sys.modules:
                importlib.reload(sys.modules[full])
        real = sys.modules["dds"]
        sys.modules["dds"] = self.w.refdds
        try:
            for m in order:
                full = self.rpkg + "." + m
                if full in sys.modules:
                    importlib.reload(sys.modules[full])
        finally:
            sys.modules["dds"] = real

    # ------------------------------------------------------------ process and store
    def restart(self):
        import dds
        self.w.fresh_dds_state()
        self.purge()
        self._helper_fresh = True
        for p in self.accept_first + [self.pkg + self.accept_suffix] + self.extra_accept + ([self.pkg.replace("vp", "vh")] if self.has_helper_pkg else []):
            dds.accept_module(p)
        self.open_store()

    def open_store(self):
        import dds
        import dds._api as api
        from ..stores import CaptureStore
        k = self.store_kind
        if k == "memory":
            if self.persist is None:
                dds.set_store("memory")
                self.persist = api._store()
            inner = self.persist
        elif k.startswith("local"):
            kw = {}
            if k == "local_cache2":
                kw["cache_objects"] = 2
            elif k == "local_cache100":
                kw["cache_objects"] = 100
            dds.set_store("local", internal_dir=os.path.join(self.store_dir, "i"), data_dir=os.path.join(self.store_dir, "d"), **kw)
            inner = api._store()
        elif k == "noop":
            dds.set_store("noop")
            inner = api._store()
        elif k == "dbfs":
            if self.persist is None:
                from ..seqmc.fake_dbutils import FakeDbutils
                self.persist = FakeDbutils()
            dds.set_store("dbfs", internal_dir="dbfs:/int", data_dir="dbfs:/data", dbutils=self.persist)
            inner = api._store()
        else:
            raise ValueError(k)
        self.capture = CaptureStore(inner)
        dds.set_store(self.capture)

    def switch_process(self):
        """two long-lived processes work on the same store: park the running one (its dds state, caches and store object stay
        alive) and continue in the other one, which is started fresh the first time"""
        self.images[self.cur_pid] = (self.w.capture_dds_state(), self.capture)
        self.cur_pid = 1 - self.cur_pid
        if self.cur_pid in self.images:
            img, cap = self.images[self.cur_pid]
            self.w.install_dds_state(img)
            self.capture = cap
        else:
            self.w.fresh_dds_state()
            import dds
            for p in self.accept_first + [self.pkg + self.accept_suffix] + self.extra_accept:
                dds.accept_module(p)
            self.open_store()

    def goto(self, variant, how):
        """how: 'restart' | 'inproc' (attribute assignment when only variable values differ, else reload) | 'copy' | 'switch'"""
        old = self.variant
        if how == "switch" and old is not None:
            self.switch_process()
            how = "inproc"
        if how == "copy" and old is not None:
            # the code is copied to another accepted package; a fresh process evaluates it there on the same store
            self.purge()
            for d in (self.pkg, self.rpkg):
                shutil.rmtree(os.path.join(self.root, d), ignore_errors=True)
            self.w.n += 1
            self.n = self.w.n
            self.pkg, self.rpkg = f"vp{self.n}", f"vr{self.n}"  # the non-accepted package keeps its name
            self.files = {k: v for k, v in self.files.items() if k.startswith(self.xpkg + "/")}
            self.write(variant)
            self.restart()
            return "copy"
        self.write(variant)
        if how == "restart" or old is None:
            self.restart()
            return "restart"
        if how == "reimport":
            # the same process forgets the program's modules and imports them again (a test runner, a notebook that purges
            # sys.modules to pick up edits): new module and function objects, dds's own state stays
            self.purge()
            self._helper_fresh = False
            return "reimport"
        diff = [k for k in variant if variant[k] != old.get(k)]
        only_vars = diff and all(any(v["name"] == k and v.get("access") != "alias" for v in self.spec["vars"]) for k in diff)
        # (a variable imported under another name cannot be updated by assigning the original name: such edits are reloads)
        if only_vars and not self.spec.get("no_assign"):
            for k in diff:
                v = S._var(self.spec, k)
                val = eval(S.var_value(self.spec, variant, k), {"OrderedDict": __import__("collections").OrderedDict,
                                                                "PurePosixPath": __import__("pathlib").PurePosixPath, "datetime": __import__("datetime"), "math": __import__("math"), "pathlib": __import__("pathlib")})
                for pk in (self.pkg, self.rpkg):
                    for mname, m in list(sys.modules.items()):
                        if mname.split(".")[0] == pk and hasattr(m, k) and not isinstance(getattr(m, k), types.ModuleType):
                            setattr(m, k, copy.deepcopy(val))
            return "assign"
        if diff:
            self.reload_all()
            return "reload"
        return "same"

    # ------------------------------------------------------------ evaluation
    def _call(self, entry, ref, opts):
        e = self.spec["entries"][entry]
        f = S._fn(self.spec, e["fn"])
        m = self.mod(f["module"], ref=ref)
        d = self.w.refdds if ref else sys.modules["dds"]
        ns = {"OrderedDict": __import__("collections").OrderedDict, "PurePosixPath": __import__("pathlib").PurePosixPath, "datetime": __import__("datetime"), "math": __import__("math"), "pathlib": __import__("pathlib")}
        r = S.Renderer(self.spec, self.variant, self.pkg, self.xpkg)
        args = [eval(r.epv(a), ns) for a in e.get("args", [])]
        kwargs = {n: eval(r.epv(a), ns) for n, a in e.get("kwargs", [])}
        fn = getattr(m, e["fn"])
        if e["kind"] == "eval":
            return d.eval(fn, *args, **kwargs, **(opts or {}))
        if e["kind"] == "keep":
            return d.keep(e["path"], fn, *args, **kwargs)
        return fn(*args, **kwargs)

    def activate(self):
        """several program instances may live in one worker: make this one's store and accepted package current"""
        import dds
        import dds._api as api
        if self.capture is not None and getattr(api, "_store_var", None) is not self.capture:
            dds.set_store(self.capture)
        for p in self.accept_first + [self.pkg + self.accept_suffix] + self.extra_accept + ([self.pkg.replace("vp", "vh")] if self.has_helper_pkg else []):
            dds.accept_module(p)

    def run(self, entry, opts=None, fault=None):
        """-> (real Obs, reference Obs)"""
        self.activate()
        pl = self.w.pipelog
        rd = self.w.refdds
        # reference first (its committed map is the model of the paths)
        ref = Obs()
        pl.cur = []
        pl.fault = fault
        rd.kept[:] = []
        rd.committed = dict(self.ref_committed)
        self.mod(S._fn(self.spec, self.spec["entries"][entry]["fn"])["module"], ref=True)   # imported before the swap below
        real_dds = sys.modules["dds"]
        sys.modules["dds"] = rd   # a function-level 'import dds' of the reference copy must find the stub too
        try:
            ref.value = self._call(entry, True, None)
            ref.status = "ok"
        except BaseException as ex:  # noqa
            ref.status = "exc"
            ref.exc = type(ex).__name__
            ref.excobj = ex
        finally:
            sys.modules["dds"] = real_dds
        ref.log = list(pl.cur)
        ref.sigs = dict((p, v) for p, v in rd.kept)  # path -> value (latest in program order)
        if self.has_helper_pkg and getattr(self, "_helper_fresh", False):
            # the plain execution is another process: in this one nobody has imported the lazily imported package yet
            self._helper_fresh = False
            hp = self.pkg.replace("vp", "vh")
            for k in [k for k in sys.modules if k.split(".")[0] == hp]:
                del sys.modules[k]
        real = Obs()
        pl.cur = []
        cap = self.capture
        n_sync, n_stored = len(cap.syncs), len(cap.stored)
        try:
            real.value = self._call(entry, False, opts)
            real.status = "ok"
        except BaseException as ex:  # noqa
            if isinstance(ex, (MemoryError,)):
                raise
            real.status = "dds" if type(ex).__name__ == "DDSException" else "exc"
            real.exc = type(ex).__name__
            c = getattr(ex, "error_code", None)
            real.code = getattr(c, "name", None)
            real.excobj = ex
        finally:
            pl.fault = None
        real.log = list(pl.cur)
        real.synced = len(cap.syncs) > n_sync
        real.sigs = dict(cap.syncs[-1]) if real.synced else {}
        real.stored = cap.stored[n_stored:]
        pl.cur = []
        return real, ref

    def commit_ref(self, ref):
        """the reference evaluation completed: its kept values are what the paths must serve from now on"""
        for p, v in ref.sigs.items():
            self.ref_committed[p] = v

    def store_state(self):
        """(sorted blob keys, path -> key)"""
        k = self.store_kind
        if k == "memory":
            return (sorted(self.persist._cache), dict(self.persist._paths))
        if k.startswith("local"):
            bd = os.path.join(self.store_dir, "i", "blobs")
            blobs = sorted(x for x in (os.listdir(bd) if os.path.isdir(bd) else []) if not x.endswith(".meta"))
            paths = {}
            dd = os.path.join(self.store_dir, "d")
            for dp, dns, fns in os.walk(dd):
                for n in fns + [d for d in dns if os.path.islink(os.path.join(dp, d))]:
                    p = os.path.join(dp, n)
                    if os.path.islink(p):
                        paths["/" + os.path.relpath(p, dd)] = os.path.basename(os.readlink(p))
            return (blobs, paths)
        if k == "dbfs":
            files = self.persist.fs.files
            blobs = sorted(x.rsplit("/", 1)[1] for x in files if x.startswith("dbfs:/int/blobs/") and not x.endswith(".meta"))
            return (blobs, {x[len("dbfs:/data/_dds_meta"):]: files[x] for x in files if x.startswith("dbfs:/data/_dds_meta/")})
        return ([], {})

    def load(self, path):
        import dds
        self.activate()
        return dds.load(path)

    def cleanup(self):
        self.purge()
        for d in (self.pkg, self.rpkg, self.xpkg, self.pkg.replace("vp", "vh")):
            shutil.rmtree(os.path.join(self.root, d), ignore_errors=True)
        shutil.rmtree(self.store_dir, ignore_errors=True)
