"""The generated program family (DESIGN 5/C01): unit programs (one dependency kind at one position) and composites."""
import copy
import itertools

TYPES = {
    "int": ("1", "2"), "float": ("1.5", "2.5"), "str": ("'a'", "'b'"), "bool": ("True", "False"),
    "tuple": ("(1, 2)", "(1, 3)"), "list": ("[1, 2]", "[1, 3]"), "dict": ("{'k': 1}", "{'k': 2}"),
    "odict": ("OrderedDict([('k', 1)])", "OrderedDict([('k', 2)])"), "ppath": ("PurePosixPath('a')", "PurePosixPath('b')"),
    "none_int": ("None", "3"), "nested": ("{'k': [1, (2, 3)]}", "{'k': [1, (2, 4)]}"),
    "bigint": ("2**40", "2**40 + 1"), "empties": ("[]", "{}"), "negint": ("-1", "1"),
    # same entries in another order: what the function returns (str(V), a header line, the first key) depends on it
    "date": ("datetime.date(2020, 1, 2)", "datetime.date(2020, 1, 3)"), "datetime": ("datetime.datetime(2020, 1, 2, 3, 4)", "datetime.datetime(2020, 1, 2, 3, 5)"),
    "timedelta": ("datetime.timedelta(days=1)", "datetime.timedelta(days=1, seconds=1)"),
    # a C-implemented function bound to a module-level name (from math import floor as V): which function it is matters
    "cfunc": ("math.floor", "math.ceil"),
    # a concrete, relative path (what it resolves to depends on the working directory; its text does not)
    "relpath": ("pathlib.Path('data/a.csv')", "pathlib.Path('data/b.csv')"),
    "dict_order": ("{'a': 1, 'b': 2}", "{'b': 2, 'a': 1}"), "set_like_list": ("[1, 2]", "[2, 1]"),
}
CONTEXTS = ["stmt", "if", "else", "for", "while", "with", "try", "finally", "listcomp", "genexp", "dictlit", "fstring", "ifexp",
            "boolop", "kwarg", "star", "subscript", "augassign", "annassign", "walrus", "assert", "multiline", "nested_def", "tuple",
            "lambda_param", "except_as", "nested_def_param", "match_capture"]
IMPORT_FORMS = ["from", "alias", "attr", "import_as", "import_full", "relative", "star", "reexport"]

ENTRIES = {
    "eval_root": {"kind": "eval", "fn": "root"},
    "keep_K": {"kind": "keep", "fn": "K", "path": "/u/k"},
    "direct": {"kind": "call", "fn": "Kd"},
    "eval_df": {"kind": "eval", "fn": "Kd"},
    "call_rootd": {"kind": "call", "fn": "rootd"},
    "eval_rootd": {"kind": "eval", "fn": "rootd"},
}
# entry styles that must share signatures / blobs (C02 entry switches)
ENTRY_PAIRS = [("direct", "eval_df"), ("call_rootd", "eval_rootd"), ("eval_root", "keep_K"), ("direct", "call_rootd")]


def _scaffold(core_items, core_params=None, extra_funcs=(), vars_=(), eps=(), modules=("lib", "main"), ext=None, reexport=None,
              root_items=None, sid="", key="", kargs=None):
    """K / Kd carry the dependency; S is an independent sibling; root / rootd are the evaluated drivers."""
    core_params = core_params or []
    kargs = kargs or {"args": [], "kwargs": []}
    funcs = list(extra_funcs)
    funcs.append({"name": "K", "module": "main", "params": core_params, "body": copy.deepcopy(core_items)})
    funcs.append({"name": "S", "module": "main", "params": [], "datafn": "/u/s", "body": []})
    entries = dict((k, dict(v)) for k, v in ENTRIES.items())
    if not core_params:
        funcs.append({"name": "Kd", "module": "main", "params": [], "datafn": "/u/kd", "body": copy.deepcopy(core_items)})
        funcs.append({"name": "rootd", "module": "main", "params": [], "body": [{"k": "call", "fn": "Kd"}, {"k": "call", "fn": "S"}]})
    else:
        for e in ("direct", "eval_df", "call_rootd", "eval_rootd"):
            entries.pop(e)
        def lit(a):
            return a["lit"] if "lit" in a else "@" + a["ep"]
        if all(("lit" in a or "ep" in a) for a in kargs["args"] + [x for _, x in kargs["kwargs"]]):
            entries["keep_K"]["args"] = [lit(a) for a in kargs["args"]]
            entries["keep_K"]["kwargs"] = [[n, lit(a)] for n, a in kargs["kwargs"]]
        else:
            entries.pop("keep_K")
    rit = root_items if root_items is not None else []
    rit = rit + [dict({"k": "keep", "path": "/u/k", "fn": "K", "args": kargs["args"], "kwargs": kargs["kwargs"]},
                      **{k: True for k in ("starkw", "starargs") if kargs.get(k)}), {"k": "call", "fn": "S"}]
    funcs.append({"name": "root", "module": "main", "params": [], "body": rit})
    spec = {"id": sid, "key": key, "modules": list(modules), "vars": list(vars_), "funcs": funcs, "entries": entries, "eps": list(eps)}
    if ext:
        spec["ext"] = ext
    if reexport:
        spec["reexport"] = reexport
    return spec


def _chain(depth, leaf_items, module="main", form="plain", leaf_module=None):
    """helpers h1 -> h2 -> ... -> h<depth>; the deepest carries leaf_items. returns (funcs, item calling h1)"""
    funcs = []
    for d in range(depth, 0, -1):
        body = copy.deepcopy(leaf_items) if d == depth else [{"k": "call", "fn": f"h{d + 1}", "form": "plain"}]
        funcs.append({"name": f"h{d}", "module": (leaf_module or module), "params": [], "body": body})
    return funcs, {"k": "call", "fn": "h1", "form": form}


def unit_var(ty, access, pos):
    """tracked module variable of type ty read with the given access form at the given position"""
    vals = TYPES[ty]
    vmod = "main" if access == "name" else "lib"
    var = {"name": "V0", "module": vmod, "values": list(vals)}
    if access != "name":
        var["access"] = access
    leaf = [{"k": "read", "var": "V0"}]
    extra = []
    if pos == "direct":
        core = leaf
    elif pos.startswith("helper"):
        extra, call = _chain(int(pos[6:]), leaf)
        core = [call]
    elif pos == "method":
        extra = [{"name": "C", "module": "main", "cls": "C", "params": [], "body": leaf, "init": []}]
        core = [{"k": "method", "cls": "C"}]
    elif pos == "init":
        extra = [{"name": "C", "module": "main", "cls": "C", "params": [], "body": [], "init": leaf}]
        core = [{"k": "method", "cls": "C"}]
    else:
        raise ValueError(pos)
    return _scaffold(core, extra_funcs=extra, vars_=[var], eps=[{"id": "V0", "kind": "var_value", "n": 2}],
                     sid=f"U/var:{ty}/{access}/{pos}", key=f"var|type={ty}|access={access}")


def unit_body(pos, form="plain", ctx=None, leaf_module="main"):
    """body text of the function at the given position, reached through the given call form / syntactic context"""
    extra = []
    if pos == "direct":
        core = []
        tag = "tag:K"
        eps = [{"id": "tag:K", "kind": "body_tag", "n": 2}, {"id": "tag:Kd", "kind": "body_tag", "n": 1}]
    elif pos.startswith("helper"):
        d = int(pos[6:])
        extra, call = _chain(d, [], form=form, leaf_module=leaf_module if d == 1 else None)
        if leaf_module != "main":
            for f in extra:
                f["module"] = leaf_module
        if ctx:
            call["ctx"] = ctx
        core = [call]
        eps = [{"id": f"tag:h{d}", "kind": "body_tag", "n": 2}]
    elif pos == "method":
        extra = [{"name": "C", "module": leaf_module, "cls": "C", "params": [], "body": [], "init": []}]
        core = [{"k": "method", "cls": "C", "form": form if leaf_module != "main" else "plain"}]
        if ctx:
            core[0]["ctx"] = ctx
        eps = [{"id": "tag:C", "kind": "body_tag", "n": 2}]
    elif pos == "hof":
        extra = [{"name": "h1", "module": leaf_module, "params": [], "body": []}]
        core = [{"k": "hof", "fn": "h1", "form": form if leaf_module != "main" else "from"}]
        if ctx:
            core[0]["ctx"] = ctx
        eps = [{"id": "tag:h1", "kind": "body_tag", "n": 2}]
    reexp = ["h1"] if form == "reexport" else None
    return _scaffold(core, extra_funcs=extra, eps=eps, reexport=reexp,
                     sid=f"U/body/{pos}/{form}/{ctx or 'stmt'}/{leaf_module}", key=f"body|pos={pos.rstrip('0123456789')}|form={form}|ctx={ctx or 'stmt'}")


def unit_body_self():
    """K's own body tag (both the keep-style and the data-function-style node)"""
    s = _scaffold([], eps=[{"id": "tag:K", "kind": "body_tag", "n": 2}], sid="U/body/self/K", key="body|pos=self|form=plain|ctx=stmt")
    s2 = _scaffold([], eps=[{"id": "tag:Kd", "kind": "body_tag", "n": 2}], sid="U/body/self/Kd", key="body|pos=self|form=plain|ctx=stmt")
    return [s, s2]


def unit_var_ctx(ctx, form):
    """int variable in lib read through an import form inside a syntactic context"""
    var = {"name": "V0", "module": "lib", "values": ["1", "2"], "access": form}
    it = {"k": "read", "var": "V0", "ctx": ctx}
    return _scaffold([it], vars_=[var], eps=[{"id": "V0", "kind": "var_value", "n": 2}], reexport=["V0"] if form == "reexport" else None,
                     sid=f"U/varctx/{ctx}/{form}", key=f"var|type=int|access={form}|ctx={ctx}")


LIT = {"int": ("1", "2"), "float": ("1.5", "2.5"), "str": ("'a'", "'b'"), "bool": ("True", "False"), "none": ("None", "0"),
       "negint": ("-1", "1"), "bigint": ("1099511627776", "1099511627777")}


def unit_arg(kind, ty="int"):
    """the argument binding of the kept call K(x, y=<default>)"""
    a, b = LIT[ty]
    params = [["x", None], ["y", "0"]]
    eps = [{"id": "A", "kind": "lit_arg", "n": 2, "values": [a, b]}]
    root_items = []
    vars_ = []
    extra = []
    if kind == "lit_pos":
        kargs = {"args": [{"ep": "A"}], "kwargs": []}
    elif kind == "lit_kw":
        kargs = {"args": [], "kwargs": [["x", {"ep": "A"}]]}
    elif kind == "lit_pos2":
        kargs = {"args": [{"lit": "7"}, {"ep": "A"}], "kwargs": []}
    elif kind == "lit_kw2":
        kargs = {"args": [{"lit": "7"}], "kwargs": [["y", {"ep": "A"}]]}
    elif kind == "default":
        params = [["x", None], ["y", None]]
        params[1][1] = None
        eps = [{"id": "A", "kind": "default_value", "n": 2, "values": [a, b]}]
        kargs = {"args": [{"lit": "7"}], "kwargs": []}
    elif kind == "rt_local_const":
        root_items = [{"k": "const", "expr": None}]
        kargs = {"args": [{"local": 0}], "kwargs": []}
    elif kind == "rt_local_helper":
        extra = [{"name": "h1", "module": "main", "params": [], "body": []}]
        root_items = [{"k": "call", "fn": "h1", "form": "plain"}]
        kargs = {"args": [{"local": 0}], "kwargs": []}
        eps = [{"id": "tag:h1", "kind": "body_tag", "n": 2}]
    elif kind == "rt_local_helper_twice":
        # the same context-free helper is called an even number of times before the kept call
        extra = [{"name": "h1", "module": "main", "params": [], "body": []}]
        root_items = [{"k": "call", "fn": "h1", "form": "plain"}, {"k": "call", "fn": "h1", "form": "plain"}]
        kargs = {"args": [{"local": 0}], "kwargs": []}
        eps = [{"id": "tag:h1", "kind": "body_tag", "n": 2}]
    elif kind == "rt_var":
        vars_ = [{"name": "V0", "module": "main", "values": [a, b]}]
        kargs = {"args": [{"var": "V0"}], "kwargs": []}
        eps = [{"id": "V0", "kind": "var_value", "n": 2}]
    elif kind == "lit_kw_into_varkw":
        # the edited keyword is absorbed by the function's **kw parameter
        params = [["x", None], ["**kw", None]]
        kargs = {"args": [{"lit": "7"}], "kwargs": [["y", {"ep": "A"}]]}
    elif kind == "lit_pos_into_varargs":
        # the edited value is the second surplus positional argument absorbed by *rest
        params = [["x", None], ["*rest", None]]
        kargs = {"args": [{"lit": "7"}, {"lit": "2"}, {"ep": "A"}], "kwargs": []}
    elif kind == "rt_var_starkw":
        vars_ = [{"name": "V0", "module": "main", "values": [a, b]}]
        kargs = {"args": [{"lit": "7"}], "kwargs": [["y", {"var": "V0"}]], "starkw": True}
        eps = [{"id": "V0", "kind": "var_value", "n": 2}]
    elif kind == "rt_var_starargs":
        vars_ = [{"name": "V0", "module": "main", "values": [a, b]}]
        kargs = {"args": [{"lit": "7"}, {"var": "V0"}], "kwargs": [], "starargs": True}
        eps = [{"id": "V0", "kind": "var_value", "n": 2}]
    elif kind == "rt_var_starargs_defaults":
        # every parameter has a default and the only argument is an unpacked tuple: f(*(V,))
        params = [["x", "0"], ["y", "10"]]
        vars_ = [{"name": "V0", "module": "main", "values": [a, b]}]
        kargs = {"args": [{"var": "V0"}], "kwargs": [], "starargs": True}
        eps = [{"id": "V0", "kind": "var_value", "n": 2}]
    elif kind == "rt_var_starkw_defaults":
        params = [["x", "0"], ["y", "10"]]
        vars_ = [{"name": "V0", "module": "main", "values": [a, b]}]
        kargs = {"args": [], "kwargs": [["y", {"var": "V0"}]], "starkw": True}
        eps = [{"id": "V0", "kind": "var_value", "n": 2}]
    elif kind == "fn_as_argument":
        # the function itself is handed to the kept function, which calls it: dds.keep(p, K, h1) with def K(x, y=0): x()
        extra = [{"name": "h1", "module": "main", "params": [], "body": []}]
        kargs = {"args": [{"inline": "h1", "as_function": True}], "kwargs": []}
        eps = [{"id": "tag:h1", "kind": "body_tag", "n": 2}]
    elif kind == "rt_inline":
        extra = [{"name": "h1", "module": "main", "params": [], "body": []}]
        kargs = {"args": [{"inline": "h1"}], "kwargs": []}
        eps = [{"id": "tag:h1", "kind": "body_tag", "n": 2}]
    elif kind == "rt_inline_kw":
        extra = [{"name": "h1", "module": "main", "params": [], "body": []}]
        kargs = {"args": [], "kwargs": [["x", {"inline": "h1"}]]}
        eps = [{"id": "tag:h1", "kind": "body_tag", "n": 2}]
    elif kind == "rt_multiline":
        vars_ = [{"name": "V0", "module": "main", "values": [a, b]}, {"name": "W0", "module": "main", "values": ["5"]}]
        kargs = {"args": [{"ml": [{"var": "W0"}, {"lit": "0"}, {"var": "V0"}]}], "kwargs": []}
        eps = [{"id": "V0", "kind": "var_value", "n": 2}]
    elif kind in ("rt_ml2_lit", "rt_ml3_lit"):
        # a run-time expression continued over 2 / 3 lines whose last line holds the edited literal
        root_items = [{"k": "const", "expr": "4"}]
        mid = [{"lit": "0"}] if kind == "rt_ml3_lit" else []
        kargs = {"args": [{"ml": [{"local": 0}] + mid + [{"ep": "A"}]}], "kwargs": []}
    elif kind == "rt_multiline_keep":
        vars_ = [{"name": "V0", "module": "main", "values": [a, b]}]
        kargs = {"args": [{"lit": "7"}, {"var": "V0"}], "kwargs": [], }
        eps = [{"id": "V0", "kind": "var_value", "n": 2}]
    else:
        raise ValueError(kind)
    spec = _scaffold([], core_params=params, extra_funcs=extra, vars_=vars_, eps=eps, root_items=root_items, kargs=kargs,
                     sid=f"U/arg/{kind}/{ty}", key=f"arg|kind={kind}|type={ty}")
    if kind == "fn_as_argument":
        for f in spec["funcs"]:
            if f["name"] == "K":
                f["params"] = [["x", None], ["y", "0"]]
                f["body"] = [{"k": "raw", "text": "_r = x()"}, {"k": "const", "expr": "_r"}]
                f["no_param_str"] = True
    if any(p.startswith("*") for p, _ in params):
        # keeping a function with catch-all parameters directly, dds.keep(p, f, ...) at the top level, is refused by dds with an
        # explanatory NotImplementedError ("use simpler sorts of arguments"): only calls seen in source are in the family
        spec["entries"].pop("keep_K", None)
    if kind == "default":
        # the default itself is the edit point: K(x, y=<A>)
        for f in spec["funcs"]:
            if f["name"] == "K":
                f["params"] = [["x", None], ["y", "@A"]]
    if kind == "rt_local_const":
        spec["funcs"][-1]["body"][0] = {"k": "const", "expr": "@A"}
    if kind == "rt_multiline_keep":
        for it in spec["funcs"][-1]["body"]:
            if it["k"] == "keep":
                it["multiline"] = True
    return spec


def unit_ext(kind):
    """dependency on a non-accepted module: only its name may matter (C02/C14); edits there must not change signatures"""
    ext = {"funcs": [{"name": "xf", "module": "util", "params": [], "body": []}], "vars": [{"name": "XV", "module": "util", "values": ["1", "2"]}]}
    if kind == "fn":
        core = [{"k": "ext", "fn": "xf"}]
        eps = [{"id": "tag:xf", "kind": "ext_body", "n": 2}]
    else:
        core = [{"k": "ext", "var": "XV", "form": "attr"}]  # util.XV (a from-import would make XV a variable of the accepted module)
        eps = [{"id": "XV", "kind": "ext_var", "n": 2}]
    return _scaffold(core, eps=eps, ext=ext, sid=f"U/ext/{kind}", key=f"ext|{kind}")


def unit_untracked_obj():
    """a kept function reads a module-level object of an untracked type (only its name can be an input)"""
    var = {"name": "OBJ", "module": "main", "values": ["pipehelp.Thing()"]}
    s = _scaffold([{"k": "read", "var": "OBJ"}], vars_=[var], eps=[{"id": "tag:S", "kind": "body_tag_sibling", "n": 2}],
                  sid="U/untracked_obj", key="untracked_module_object")
    s["no_assign"] = True
    return s


def unit_twice(kind):
    """the same function kept at two call sites of one evaluation with different run-time arguments"""
    params = {"x": [["x", None]], "x_default": [["x", None], ["y", "0"]], "x_lit": [["x", None], ["y", None]]}[kind]
    extra = [{"lit": "5"}] if kind == "x_lit" else []
    funcs = [{"name": "K", "module": "main", "params": params, "body": []},
             {"name": "root", "module": "main", "params": [], "body": [
                 {"k": "const", "expr": "@A"}, {"k": "const", "expr": "2"},
                 {"k": "keep", "path": "/t/a", "fn": "K", "args": [{"local": 0}] + extra},
                 {"k": "keep", "path": "/t/b", "fn": "K", "args": [{"local": 1}] + extra}]}]
    return {"id": f"U/twice/{kind}", "key": f"twice_rt|{kind}", "modules": ["main"], "vars": [], "funcs": funcs,
            "entries": {"eval_root": {"kind": "eval", "fn": "root"}}, "eps": [{"id": "A", "kind": "lit_arg", "n": 2, "values": ["1", "3"]}]}


def unit_same_path_twice(kind):
    """one path kept twice in one evaluation: with different arguments (one path cannot hold both: right values or a refusal
    before anything runs) or twice with the same call (fine)"""
    a2 = {"lit": {"lit": "2"}, "same": {"lit": "1"}, "rt": {"local": 0}}[kind]
    funcs = [{"name": "K", "module": "main", "params": [["x", None]], "body": []},
             {"name": "root", "module": "main", "params": [], "body": [
                 {"k": "const", "expr": "@A"},
                 {"k": "keep", "path": "/t/a", "fn": "K", "args": [{"lit": "1"}]},
                 {"k": "keep", "path": "/t/a", "fn": "K", "args": [a2]}]}]
    sp = {"id": f"U/same_path_twice/{kind}", "key": f"same_path_twice|{kind}", "modules": ["main"], "vars": [], "funcs": funcs,
          "entries": {"eval_root": {"kind": "eval", "fn": "root"}}, "eps": [{"id": "A", "kind": "lit_arg", "n": 2, "values": ["1", "3"]}]}
    if kind != "same":
        sp["may_refuse"] = ["OVERLAPPING_PATH"]   # the two right values, or a refusal before anything runs
    return sp


def unit_default_twice():
    """K(x, y=<A>) kept once with y omitted and once with the old default spelled out; the default is the edit point"""
    funcs = [{"name": "K", "module": "main", "params": [["x", None], ["y", "@A"]], "body": []},
             {"name": "root", "module": "main", "params": [], "body": [
                 {"k": "keep", "path": "/t/a", "fn": "K", "args": [{"lit": "7"}]},
                 {"k": "keep", "path": "/t/b", "fn": "K", "args": [{"lit": "7"}, {"lit": "1"}]}]}]
    return {"id": "U/arg/default_twice", "key": "arg|kind=default_twice|type=int", "modules": ["main"], "vars": [], "funcs": funcs,
            "entries": {"eval_root": {"kind": "eval", "fn": "root"}}, "eps": [{"id": "A", "kind": "default_value", "n": 2, "values": ["1", "2"]}]}


SHADOWS = ["listcomp", "genexp", "dictcomp", "setcomp"]   # a lambda called where it is written crashes the analysis (outside the family)


def unit_shadow(how):
    """K binds a local name equal to the name of a module variable (comprehension target, lambda parameter): it cannot observe the variable"""
    var = {"name": "V0", "module": "main", "values": ["1", "2"]}
    s = _scaffold([{"k": "shadow", "var": "V0", "how": how}], vars_=[var], eps=[{"id": "V0", "kind": "shadowed_var", "n": 2}],
                  sid=f"U/shadow/{how}", key=f"shadow|{how}")
    # the sibling does read the variable (so the edit is observable somewhere)
    for f in s["funcs"]:
        if f["name"] == "S":
            f["body"] = [{"k": "read", "var": "V0"}]
    return s


def unit_shadow_and_use(how, what):
    """an inner scope of K has a parameter called like a module variable / a module function, and K ALSO reads that variable /
    calls that function outside the inner scope: the dependency is real"""
    if what == "var":
        var = {"name": "V0", "module": "main", "values": ["1", "2"]}
        return _scaffold([{"k": "shadow", "var": "V0", "how": how}, {"k": "read", "var": "V0"}], vars_=[var],
                         eps=[{"id": "V0", "kind": "var_value", "n": 2}], sid=f"U/shadow_and_use/{how}/var", key=f"shadow_and_use|{how}|var")
    extra = [{"name": "h1", "module": "main", "params": [], "body": []}]
    return _scaffold([{"k": "shadow", "var": "h1", "how": how}, {"k": "call", "fn": "h1", "form": "plain"}], extra_funcs=extra,
                     eps=[{"id": "tag:h1", "kind": "body_tag", "n": 2}], sid=f"U/shadow_and_use/{how}/fn", key=f"shadow_and_use|{how}|fn")


def unit_drop_helper(depth):
    """the helper chain below K is cut: K stops calling h1 and h1 (with what it calls) is deleted from the module"""
    extra, call = _chain(depth, [])
    eps = [{"id": "drop:h1", "kind": "drop_fn", "n": 2}] + ([{"id": "drop:h2", "kind": "drop_fn", "n": 2}] if depth >= 2 else [])
    sp = _scaffold([call], extra_funcs=extra, eps=eps, sid=f"U/drop_helper/{depth}", key=f"drop_helper|depth={depth}")
    return sp


def unit_helper_all_defaults(kind):
    """a plain helper whose parameters all have defaults, called WITH an argument: h1(<A>) where def h1(n=3) keeps G(n) / returns n"""
    g = {"name": "G", "module": "main", "params": [["x", None]], "body": []}
    if kind == "keeps":
        h = {"name": "h1", "module": "main", "params": [["n", "3"]], "body": [{"k": "keep", "path": "/u/g", "fn": "G", "args": [{"param": "n"}]}]}
    else:
        h = {"name": "h1", "module": "main", "params": [["n", "3"]], "body": []}
    return _scaffold([{"k": "call", "fn": "h1", "form": "plain", "args": [{"ep": "A"}]}], extra_funcs=[g, h],
                     eps=[{"id": "A", "kind": "lit_arg", "n": 2, "values": ["10", "20"]}], sid=f"U/helper_all_defaults/{kind}", key=f"helper_all_defaults|{kind}")


def unit_hash_in_string():
    """the only edit is inside a string literal, after a '#' that is not a comment"""
    return _scaffold([{"k": "const", "expr": "@A"}], eps=[{"id": "A", "kind": "lit_arg", "n": 2, "values": ["'report # 1'", "'report # 2'"]}],
                     sid="U/hash_in_string", key="hash_in_string")


def unit_none_result():
    """kept functions whose (legitimate) result is None"""
    sp = _scaffold([], eps=[{"id": "tag:S", "kind": "body_tag_sibling", "n": 2}], sid="U/none_result", key="none_result")
    for f in sp["funcs"]:
        if f["name"] in ("K", "Kd"):
            f["returns_none"] = True
    return sp


def unit_path_object():
    """one DDS path spelled as a string in one pipeline and as a pathlib.Path object in another; its first segment is the
    name of a directory that is a symbolic link on this machine (/bin): DDS paths are names, the file system is not consulted"""
    funcs = [{"name": "K", "module": "main", "params": [], "body": []},
             {"name": "root", "module": "main", "params": [], "body": [{"k": "keep", "path": "/bin/vtm/k", "fn": "K", "args": []}]},
             {"name": "root2", "module": "main", "params": [], "body": [{"k": "keep", "path": "/bin/vtm/k", "pathvar": "PV", "fn": "K", "args": []}]}]
    return {"id": "U/path_object", "key": "path_object", "modules": ["main"], "no_assign": True,
            "vars": [{"name": "PV", "module": "main", "values": ["pathlib.Path('/bin/vtm/k')"]}],
            "funcs": funcs, "entries": {"eval_root": {"kind": "eval", "fn": "root"}, "eval_sub": {"kind": "eval", "fn": "root2"}},
            "eps": [{"id": "tag:K", "kind": "body_tag", "n": 2}]}


def unit_conditional_keep():
    """a keep written under 'if FLAG:' in the evaluated function: when FLAG is off the keep is analysed but not reached - its
    path must go on serving what it served"""
    funcs = [{"name": "G", "module": "main", "params": [], "body": []},
             {"name": "S", "module": "main", "params": [], "datafn": "/u/s", "body": []},
             {"name": "root", "module": "main", "params": [], "body": [{"k": "keep", "path": "/u/c", "fn": "G", "args": [], "ctx": "if_flag"}, {"k": "call", "fn": "S"}]},
             {"name": "root2", "module": "main", "params": [], "body": [{"k": "call", "fn": "S"}]}]
    return {"id": "U/conditional_keep", "key": "conditional_keep", "conditional": True, "modules": ["main"], "vars": [{"name": "FLAG", "module": "main", "values": ["True", "False"]}],
            "funcs": funcs, "entries": {"eval_root": {"kind": "eval", "fn": "root"}, "eval_sub": {"kind": "eval", "fn": "root2"}},
            "eps": [{"id": "FLAG", "kind": "var_value", "n": 2}, {"id": "tag:G", "kind": "body_tag", "n": 2}]}


def unit_class_attr():
    """a class-level attribute initialised from a tracked module variable, read through self in a method"""
    var = {"name": "V0", "module": "main", "values": ["1", "2"]}
    extra = [{"name": "C", "module": "main", "cls": "C", "params": [], "body": [], "init": [], "clsattr": [{"k": "read", "var": "V0"}]}]
    return _scaffold([{"k": "method", "cls": "C"}], extra_funcs=extra, vars_=[var], eps=[{"id": "V0", "kind": "var_value", "n": 2}],
                     sid="U/class_attr", key="class_attr_reads_var")


def unit_local_import():
    """the helper is imported inside the function that calls it"""
    extra = [{"name": "h1", "module": "lib", "params": [], "body": []}]
    s = _scaffold([{"k": "call", "fn": "h1", "form": "local_import"}], extra_funcs=extra, eps=[{"id": "tag:h1", "kind": "body_tag", "n": 2}],
                  sid="U/local_import", key="import_inside_function")
    return s


def unit_inherited():
    """the method is defined in a base class of the class that is instantiated"""
    extra = [{"name": "B", "module": "main", "cls": "B", "params": [], "body": [], "init": []},
             {"name": "C", "module": "main", "cls": "C", "base": "B", "inherit_only": True, "params": [], "body": []}]
    return _scaffold([{"k": "method", "cls": "C"}], extra_funcs=extra, eps=[{"id": "tag:B", "kind": "body_tag", "n": 2}],
                     sid="U/inherited_method", key="inherited_method")


def unit_local_module_import():
    """an accepted top-level module that only this function imports, inside its body: import vh.hmod; vh.hmod.h1()"""
    extra = [{"name": "h1", "module": "H:hmod", "params": [], "body": []}]
    return _scaffold([{"k": "call", "fn": "h1", "form": "local_module_import"}], extra_funcs=extra, eps=[{"id": "tag:h1", "kind": "body_tag", "n": 2}],
                     sid="U/local_module_import", key="module_imported_inside_function")


def unit_local_module_import_hof():
    """import vh (module level); inside the body: import vh.hmod; call0(vh.hmod.h1) - the function is handed over by name"""
    extra = [{"name": "h1", "module": "H:hmod", "params": [], "body": []}]
    return _scaffold([{"k": "hof", "fn": "h1", "form": "local_module_import"}], extra_funcs=extra, eps=[{"id": "tag:h1", "kind": "body_tag", "n": 2}],
                     sid="U/local_module_import_hof", key="module_imported_inside_function|hof")


def unit_result_crlf():
    """a kept text result that contains carriage returns (CSV text): the value read back from a file store must be the same"""
    s = _scaffold([], eps=[{"id": "tag:K", "kind": "body_tag", "n": 2}, {"id": "tag:Kd", "kind": "body_tag", "n": 1}], sid="U/result_crlf", key="result_with_carriage_returns")
    for f in s["funcs"]:
        if f["name"] in ("K", "Kd"):
            f["suffix"] = "a\r\nb\rc\n"
    return s


def unit_nested_rt_keep_in_datafn():
    """a zero-argument data function without inputs of its own keeps another function with a run-time argument"""
    g = {"name": "G", "module": "main", "params": [["x", None]], "body": []}
    core = [{"k": "const", "expr": "5"}, {"k": "keep", "path": "/u/g", "fn": "G", "args": [{"local": 0}]}]
    sp = _scaffold(core, extra_funcs=[g], eps=[{"id": "tag:S", "kind": "body_tag_sibling", "n": 2}], sid="U/nested_rt_keep_in_datafn", key="nested_rt_keep_in_datafn")
    for f in sp["funcs"]:
        if f["name"] in ("K", "Kd"):
            f["nolog"] = True   # no input of its own at all: not even the name of a non-accepted module
    return sp


def unit_structural(kind):
    """edits outside every cone: unrelated definitions, reordering, comments"""
    var = {"name": "V0", "module": "main", "values": ["1"]}
    extra, call = _chain(2, [{"k": "read", "var": "V0"}])
    eps = {"unrel": [{"id": "unrel", "kind": "unrelated_defs", "n": 3}], "reorder": [{"id": "reorder", "kind": "reorder_defs", "n": 2}],
           "cmt_other": [{"id": "cmt:S", "kind": "comment_in_sibling", "n": 2}]}[kind]
    return _scaffold([call], extra_funcs=extra, vars_=[var], eps=eps, sid=f"U/struct/{kind}", key=f"struct|{kind}")


def unit_programs(level="quick"):
    out = []
    positions = ["direct", "helper1", "helper2", "helper5", "method", "init"]
    for ty in TYPES:
        for access in ("name", "from", "attr"):
            for pos in (positions if (level != "quick" or ty in ("int", "bool", "tuple", "list", "dict")) else ["direct", "helper2"]):
                out.append(unit_var(ty, access, pos))
    out += unit_body_self()
    for pos in ("helper1", "helper2", "helper3", "helper4", "helper5", "method", "hof"):
        out.append(unit_body(pos))
    for form in IMPORT_FORMS:
        out.append(unit_body("helper1", form=form, leaf_module="lib"))
        out.append(unit_var_ctx("stmt", form))
    for ctx in CONTEXTS[1:]:
        out.append(unit_body("helper1", ctx=ctx))
        out.append(unit_var_ctx(ctx, "from"))
    for form in ("from", "attr", "alias"):
        out.append(unit_body("method", form=form, leaf_module="lib"))
    for form in ("attr", "alias", "import_as"):
        # the function handed to a higher-order helper lives in another module and is named through it: call0(m_lib.h1)
        out.append(unit_body("hof", form=form, leaf_module="lib"))
    out += [unit_arg("lit_kw_into_varkw"), unit_arg("lit_pos_into_varargs")]
    for kind in ("lit_pos", "lit_kw", "lit_pos2", "lit_kw2", "default", "rt_local_const"):
        for ty in LIT:
            out.append(unit_arg(kind, ty))
    for kind in ("rt_local_helper", "rt_local_helper_twice", "rt_var", "rt_var_starkw", "rt_var_starargs", "rt_var_starargs_defaults", "rt_var_starkw_defaults", "fn_as_argument", "rt_inline", "rt_inline_kw", "rt_multiline", "rt_multiline_keep", "rt_ml2_lit", "rt_ml3_lit"):
        out.append(unit_arg(kind))
    out += [unit_ext("fn"), unit_ext("var")]
    out += [unit_structural(k) for k in ("unrel", "reorder", "cmt_other")]
    out.append(unit_untracked_obj())
    out += [unit_twice(k) for k in ("x", "x_default", "x_lit")]
    out.append(unit_default_twice())
    out += [unit_same_path_twice(k) for k in ("lit", "same", "rt")]
    out += [unit_shadow(h) for h in SHADOWS]
    out += [unit_drop_helper(1), unit_drop_helper(2)]
    out += [unit_helper_all_defaults("keeps"), unit_helper_all_defaults("returns"), unit_conditional_keep(), unit_hash_in_string(), unit_none_result()]
    out += [unit_shadow(h) for h in ("lambda_assigned", "nested_def_param")]
    out += [unit_shadow_and_use(h, w) for h in ("lambda_assigned", "nested_def_param", "listcomp") for w in ("var", "fn")]
    out += [unit_class_attr(), unit_local_import(), unit_inherited()]
    out += [unit_local_module_import(), unit_local_module_import_hof(), unit_result_crlf(), unit_nested_rt_keep_in_datafn()]
    # the same shapes with functions that mention no name of a non-accepted module at all (every generated function logs through
    # the non-accepted module pipelog, which gives each of them an external dependency: here the dependent ones have none)
    base = unit_body_self() + [unit_body(p) for p in ("helper1", "helper2", "helper3", "method", "hof")] + [unit_var("int", "name", "helper2")]
    out += [_nolog(sp) for sp in base]
    out += [_builtin_named(unit_body(p)) for p in ("helper1", "helper3", "hof")]
    # the same pipelines written with 'from dds import keep, load, data_function'
    for sp in unit_body_self()[:1] + [unit_body("helper2"), unit_var("int", "name", "direct"), unit_arg("lit_pos", "int"), unit_arg("rt_var")]:
        sp = copy.deepcopy(sp)
        sp["dds_names"] = True
        sp["id"] += "/dds_names"
        sp["key"] += "|dds_names"
        out.append(sp)
    return out


def _builtin_named(sp):
    """the same program with helpers that are named like builtins (a user's own format / filter / input functions)"""
    import json
    txt = json.dumps(sp)
    for a, b in (("h1", "format"), ("h2", "filter"), ("h3", "input")):
        txt = txt.replace(f'"{a}"', f'"{b}"').replace(f'"tag:{a}"', f'"tag:{b}"')
    sp = json.loads(txt)
    sp["id"] += "/builtin_named"
    sp["key"] += "|builtin_named"
    return sp


def _nolog(sp):
    sp = copy.deepcopy(sp)
    for f in sp["funcs"]:
        if f["name"] not in ("S", "root", "rootd"):
            f["nolog"] = True
    sp["id"] += "/nolog"
    sp["key"] += "|nolog"
    return sp


# ------------------------------------------------------------------ composites

def composite(shape, styles, bare=False):
    """call-graph shapes over <= 4 kept nodes; styles[i] in {datafn, keep0, keeplit, keeprt}.
    bare: every node but the last has no input of its own (no variable read, no mention of a non-accepted module)"""
    n = len(styles)
    names = [f"N{i}" for i in range(n)]
    edges = {"chain": [(i, i + 1) for i in range(n - 1)],
             "fan": [(0, i) for i in range(1, n)],
             "diamond": [(0, 1), (0, 2), (1, 3), (2, 3)][: max(0, n - 1) + (1 if n == 4 else 0)],
             "repeat": [(0, 1), (0, 1)] + ([(1, 2)] if n > 2 else []),
             "flat": []}[shape]
    funcs = []
    vars_ = [{"name": f"V{i}", "module": "main", "values": ["1", "2"]} for i in range(n)]
    eps = [{"id": f"V{i}", "kind": "var_value", "n": 2} for i in range(n)]

    def call_item(j):
        st = styles[j]
        if st == "datafn":
            return {"k": "call", "fn": names[j], "form": "plain"}
        if st == "keep0":
            return {"k": "keep", "path": f"/c/n{j}", "fn": names[j], "args": []}
        if st == "keeplit":
            return {"k": "keep", "path": f"/c/n{j}", "fn": names[j], "args": [{"lit": "3"}]}
        return {"k": "keep", "path": f"/c/n{j}", "fn": names[j], "args": [{"var": f"V{j}"}]}

    for i in range(n):
        body = [{"k": "read", "var": f"V{i}"}] + [call_item(j) for (a, j) in edges if a == i]
        f = {"name": names[i], "module": "main", "params": [] if styles[i] in ("datafn", "keep0") else [["x", None]], "body": body}
        if styles[i] == "datafn":
            f["datafn"] = f"/c/n{i}"
        funcs.append(f)
    roots = [i for i in range(n) if not any(j == i for _, j in edges)]
    funcs.append({"name": "root", "module": "main", "params": [], "body": [call_item(i) for i in roots]})
    sid = f"C/{shape}/{'-'.join(styles)}"
    if bare:
        for f in funcs[:n - 1]:
            f["nolog"] = True
            f["body"] = [it for it in f["body"] if it["k"] != "read"]
            if any("var" in a for it in f["body"] for a in it.get("args", [])):
                # the run-time argument is a local value, not a tracked variable
                f["body"] = [{"k": "const", "expr": "5"}] + [dict(it, args=[({"local": 0} if "var" in a else a) for a in it.get("args", [])]) for it in f["body"]]
        used = {a["var"] for f in funcs for it in f["body"] for a in it.get("args", []) if "var" in a} | {f"V{n - 1}"}
        vars_ = [v for v in vars_ if v["name"] in used]
        eps = [e for e in eps if e["id"] in used][-2:] + [{"id": "tag:N0", "kind": "body_tag", "n": 2}]
        return {"id": sid + "/bare", "key": f"composite_bare|{shape}|{'-'.join(sorted(set(styles)))}", "modules": ["main"], "vars": vars_, "funcs": funcs,
                "entries": {"eval_root": {"kind": "eval", "fn": "root"}}, "eps": eps}
    return {"id": sid, "key": f"composite|{shape}|{'-'.join(sorted(set(styles)))}", "modules": ["main"], "vars": vars_, "funcs": funcs,
            "entries": {"eval_root": {"kind": "eval", "fn": "root"}}, "eps": eps}


def composites(level="quick"):
    out = []
    stys = ["datafn", "keep0", "keeplit", "keeprt"]
    for n, shapes in ((1, ["flat"]), (2, ["chain", "flat", "repeat"]), (3, ["chain", "fan", "repeat"]), (4, ["diamond", "chain"])):
        for shape in shapes:
            if n <= 3:
                combos = itertools.product(stys, repeat=n)
            else:
                combos = [tuple("datafn" if k != i else s for k in range(n)) for i in range(n) for s in stys]
            for c in sorted(set(combos)):
                if shape == "flat" and n > 1:
                    continue
                out.append(composite(shape, list(c)))
                if shape == "chain" and n in (2, 3):
                    out.append(composite(shape, list(c), bare=True))
    return out


# ------------------------------------------------------------------ C04: path shapes

PATHSETS = [["/a", "/a2/b", "/c/d/e"], ["/c/d/e", "/c/d/f/g", "/cd/e"], ["/a/b/c", "/ab/c", "/a/bc"], ["/p/q/r/s", "/p/q/r/t", "/p/q2"],
            ["/x y/z", "/\u00e9/w", "/x.y/.z"]]


def c04_programs():
    """three kept nodes under paths of 1-4 segments with shared directories; two roots keeping different subsets"""
    out = [unit_conditional_keep(), unit_path_object()]
    for pi, paths in enumerate(PATHSETS):
        for styles in (["datafn", "keep0", "keep0"], ["keep0", "datafn", "keeplit"]):
            for shape in ("fan", "chain"):
                sp = composite(shape, styles)
                ren = {f"/c/n{i}": paths[i] for i in range(3)}
                for f in sp["funcs"]:
                    if f.get("datafn"):
                        f["datafn"] = ren[f["datafn"]]
                    for it in f["body"]:
                        if it["k"] == "keep":
                            it["path"] = ren[it["path"]]
                # second root: only the last node (a leaf of the shape) - the other paths must keep what they serve
                last = [it for f in sp["funcs"] for it in f["body"] if (it.get("fn") == "N2")][0]
                sp["funcs"].append({"name": "root2", "module": "main", "params": [], "body": [copy.deepcopy(last)]})
                sp["entries"]["eval_sub"] = {"kind": "eval", "fn": "root2"}
                sp["eps"] = [e for e in sp["eps"] if e["id"] in ("V0", "V2")]
                # the first node evaluated on its own as a top-level kept call (its blob may already exist: revert histories)
                if styles[0] == "datafn":
                    sp["entries"]["top_n0"] = {"kind": "call", "fn": "N0"}
                else:
                    sp["entries"]["top_n0"] = {"kind": "keep", "fn": "N0", "path": paths[0]}
                sp["id"] = f"P{pi}/{shape}/{'-'.join(styles)}"
                sp["key"] = f"paths|set={pi}"
                out.append(sp)
    return out
