"""History exploration over a program's edit cube and the per-step oracles of C01 / C02 / C03 / C04.

A step is (variant index, how, entry): move the program to that variant of its cube ('restart' = fresh
process on the same store, 'inproc' = attribute assignment / reload in the running process), then evaluate
the entry. A history is a tuple of steps; all histories up to `depth` are executed by replay on a fresh
program instance (new package name, new empty store).
"""
import itertools
import os

from . import spec as S
from .world import Prog

REFUSAL_CODES = {"CONSTRUCT_NOT_SUPPORTED", "UNSUPPORTED_CALLABLE_TYPE", "TYPE_NOT_SUPPORTED", "AUTHORIZED_TYPE_NOT_UNDERSTOOD",
                 "STORE_PATH_NOT_SUPPORTED", "ARG_IN_DATA_FUNCTION", "UNKNOWN_AST_NODE", "SEQUENCE_TOO_LONG"}


def histories(nvar, entries, depth, hows=("inproc", "restart"), same_entry=True):
    """All step sequences of length 1..depth. The first step always starts a fresh process."""
    out = []
    ents = list(entries)
    for e0 in (ents if same_entry else [None]):
        first_hows = ("restart", "optflip_fresh") if "optflip" in hows else ("restart",)
        steps1 = [(v, h, e) for v in range(nvar) for h in first_hows for e in ([e0] if same_entry else ents)]
        stepsn = [(v, h, e) for v in range(nvar) for h in hows for e in ([e0] if same_entry else ents)]
        for d in range(1, depth + 1):
            for first in steps1:
                for rest in itertools.product(stepsn, repeat=d - 1):
                    out.append((first,) + rest)
    return out


def maximal(hists):
    """Histories that are not a proper prefix of another one (replaying them covers all prefixes)."""
    s = set(hists)
    pref = set()
    for h in s:
        for i in range(1, len(h)):
            pref.add(h[:i])
    return sorted(h for h in s if h not in pref)


class Trace:
    def __init__(self):
        self.steps = []  # dicts


def run_history(world, spec, hist, store_kind, oracles, sigtab=None, opts=None, pkgroot=None, n_accept_extra=0):
    """Executes one history; returns (problems, nevals, observations). problems: list of (prop, key, what)."""
    vs = list(S.variants(spec))
    prog = Prog(world, spec, store_kind, pkgroot=pkgroot, n_accept_extra=n_accept_extra)
    probs = []
    obs = []
    seen_cones = set()
    kept_ever = {}
    diverged = False
    try:
        for si, (vi, how, entry) in enumerate(hist):
            variant = vs[vi]
            optflip = how in ("optflip", "optflip_fresh")
            did = prog.goto(variant, "restart" if how == "optflip_fresh" else ("inproc" if optflip else how))
            if optflip:
                # the user switches the tracking of list / dict variables off for this one evaluation, then back to the default
                import dds
                dds.set_option("accept_list", False)
                dds.set_option("accept_dict", False)
            try:
                real, ref = prog.run(entry, opts)
            finally:
                if optflip:
                    dds.reset_option("accept_list")
                    dds.reset_option("accept_dict")
            if optflip:
                # with tracking switched off by the user nothing is demanded of this evaluation's values; the reference still advances
                if ref.status == "ok":
                    prog.commit_ref(ref)
                obs.append(dict(step=si, variant=variant, how="optflip", entry=entry, store=store_kind, real=real.short(), ref=ref.short(), log=list(real.log), sigs={}))
                seen_cones = set() if False else seen_cones
                continue
            ctxt = dict(step=si, variant=variant, how=did, entry=entry, store=store_kind)
            o = dict(ctxt, real=real.short(), ref=ref.short(), log=list(real.log), sigs=dict(real.sigs))
            obs.append(o)
            if ref.status == "ok" and entry not in spec.get("expect_error", {}):
                # (an evaluation that must be refused commits nothing, whatever plain execution would have done)
                prog.commit_ref(ref)
            # ---------------- C01: value equals plain execution
            if "C01" in oracles:
                if ref.status == "ok":
                    if real.status == "ok":
                        if real.value != ref.value:
                            probs.append(("C01", f"C01|stale|{spec['key']}", _what(spec, hist, si, f"dds returned {real.value!r}, plain execution {ref.value!r}")))
                    elif real.status == "dds" and (real.code in REFUSAL_CODES or real.code in spec.get("may_refuse", ())) and not real.log:
                        pass  # documented refusal before any body ran
                    else:
                        probs.append(("C01", f"C01|raises|{real.exc}{'[' + real.code + ']' if real.code else ''}|{spec['key']}",
                                      _what(spec, hist, si, f"dds raised {real.exc} {real.code} {str(real.excobj)[:120]!r}, plain execution returned {ref.value!r}")))
            # ---------------- C09: load sees the latest kept value, invalidates its readers, rejects read-before-produce
            if "C09" in oracles:
                must_reject = entry in spec.get("expect_error", {})
                if must_reject or ref.exc == "RefLoadError":
                    why = "reads the path before producing it" if must_reject else "loads a path that was never kept"
                    if real.status == "ok":
                        probs.append(("C09", f"C09|accepted|{spec['key']}|{entry}", _what(spec, hist, si, f"the evaluation {why} but returned {real.value!r}")))
                    elif real.status != "dds":
                        probs.append(("C09", f"C09|wrong_error|{real.exc}|{spec['key']}|{entry}", _what(spec, hist, si, f"the evaluation {why}: raised {real.exc} ({str(real.excobj)[:90]}) instead of a DDS error")))
                    if real.status != "ok" and must_reject and real.log:
                        probs.append(("C09", f"C09|ran_before_rejecting|{spec['key']}|{entry}", _what(spec, hist, si, f"user functions {real.log[:4]} ran before the rejection")))
                elif ref.status == "ok" and entry in spec.get("may_reject", ()) and real.status == "dds":
                    pass  # refusing is one of the two acceptable answers here; what must not happen is checked by the steps that follow
                elif ref.status == "ok":
                    if real.status == "ok":
                        if real.value != ref.value:
                            probs.append(("C09", f"C09|stale|{spec['key']}|{entry}", _what(spec, hist, si, f"dds returned {real.value!r}, plain execution {ref.value!r}")))
                    else:
                        probs.append(("C09", f"C09|raises|{real.exc}{'[' + real.code + ']' if real.code else ''}|{spec['key']}|{entry}",
                                      _what(spec, hist, si, f"dds raised {real.exc} {real.code} {str(real.excobj)[:120]!r}, plain execution returned {ref.value!r}")))
            # ---------------- C02: nothing recomputed unless its cone changed
            if ("C02" in oracles or "C09" in oracles) and store_kind != "noop" and ref.status == "ok" and real.status == "ok" and not spec.get("conditional"):
                # (a keep under a condition may be analysed without being reached: "its cone was evaluated" is not defined statically)
                c2 = "C02" if "C02" in oracles else "C09"
                cones = S.node_cones(spec, variant, entry, served=_served(prog, spec), pkg=prog.pkg)
                kept_fns = set(cones)
                allowed = {fn for fn, cs in cones.items() if any(c not in seen_cones for c in cs)}
                executed = [n for n in real.log if n in kept_fns]
                extra = sorted(set(executed) - allowed)
                if extra:
                    prev = "first evaluation" if si == 0 else f"after {hist[si - 1]}"
                    probs.append((c2, f"{c2}|recomputed|{_edit_kind(spec, vs, hist, si)}|{spec['key']}",
                                  _what(spec, hist, si, f"kept function(s) {extra} executed although their dependency cone was evaluated before on this store (log {real.log})")))
                for cs in cones.values():
                    seen_cones.update(cs)
            # ---------------- C03: signatures are a function of (program, variant, entry) only
            if sigtab is not None and real.synced and not _pkg_in_sig(spec):
                k = (spec["id"], S.vkey(variant), entry)
                prevv = sigtab.get(k)
                if prevv is None:
                    sigtab[k] = (dict(real.sigs), (hist[:si + 1], store_kind))
                elif spec.get("conditional") and all(prevv[0][p_] == v_ for p_, v_ in real.sigs.items() if p_ in prevv[0]):
                    pass  # a keep that is not reached is not committed: which paths are written depends on the history, their signatures do not
                elif prevv[0] != real.sigs and "C03" in oracles:
                    probs.append(("C03", f"C03|history_dependent|{spec['key']}",
                                  _what(spec, hist, si, f"signatures {_abbr(real.sigs)} differ from {_abbr(prevv[0])} obtained for the same program state via {prevv[1]}"),
                                  {"prev_hist": [list(x) for x in prevv[1][0]], "prev_store": prevv[1][1]}))
            # ---------------- C04: committed paths serve the latest kept value
            if real.status == "ok" and ref.status == "ok" and real.value != ref.value:
                # the keep itself returned something else than plain execution (C01's business): from here on the paths can
                # only be compared with what dds returned, which this oracle does not observe - C04 demands nothing more
                diverged = True
            if "C04" in oracles and store_kind != "noop" and real.status == "ok" and ref.status == "ok" and not diverged:
                probs += _check_paths(prog, spec, hist, si, real, ref, fresh=False)
        if "C04" in oracles and store_kind != "noop" and obs and obs[-1]["real"][0] == "ok" and not diverged:
            prog.restart()
            probs += _check_paths(prog, spec, hist, len(hist) - 1, real, ref, fresh=True)
    finally:
        prog.cleanup()
    return probs, len(hist), obs


def _pkg_in_sig(spec):
    """programs whose source text or external names legitimately spell the (per-instance) package name"""
    k = spec["key"]
    return k.startswith("ext|") or k in ("import_inside_function", "module_imported_inside_function", "module_imported_inside_function|hof") or "form=import_full" in k or "access=import_full" in k or k == "untracked_module_object" or bool(spec.get("ext"))


def _served(prog, spec):
    # value served at each loaded path when the evaluation starts (values are traces of everything that produced them)
    return dict(prog.ref_committed)


def _edit_kind(spec, vs, hist, si):
    if si == 0:
        return "first"
    a, b = vs[hist[si - 1][0]], vs[hist[si][0]]
    diff = sorted(k for k in b if a.get(k) != b.get(k))
    kinds = []
    for k in diff:
        ep = next(e for e in spec["eps"] if e["id"] == k)
        kinds.append(ep["kind"])
    how = hist[si][1]
    if not diff:
        if hist[si - 1][2] != hist[si][2]:
            return f"same_state+entry_switch+{how}"
        return f"same_state+{how}"
    # was the target variant evaluated earlier in the history (revert)?
    rev = any(h[0] == hist[si][0] for h in hist[:si])
    return "+".join(sorted(set(kinds))) + ("+revert" if rev else "") + f"+{how}"


def _check_paths(prog, spec, hist, si, real, ref, fresh):
    probs = []
    for path, want in sorted(prog.ref_committed.items()):
        try:
            got = ("ok", prog.load(path))
        except BaseException as e:  # noqa
            got = ("exc", type(e).__name__, str(e)[:100])
        if got != ("ok", want):
            sym = "wrong_value" if got[0] == "ok" else f"load_raises:{got[1]}"
            # the evaluation did not reach the keep of this path (branch not taken) and dds committed the path all the same
            unreached = bool(spec.get("conditional")) and ref is not None and path not in ref.sigs and path in getattr(real, "sigs", {})
            probs.append(("C04", f"C04|{sym}|{'fresh_process' if fresh else 'same_process'}|{spec['key']}" + ("|unreached_keep_committed" if unreached else ""),
                          _what(spec, hist, si, f"path {path} loads {got!r} ({'fresh process' if fresh else 'same process'}), latest kept value is {want!r}")))
        elif prog.store_kind.startswith("local") and isinstance(want, (str, bytes)):
            fp = os.path.join(prog.store_dir, "d", *[s for s in path.split("/") if s])
            try:
                raw = open(fp, "rb").read()
            except OSError as e:
                raw = e
            w = want.encode("utf-8") if isinstance(want, str) else want
            if raw != w:
                probs.append(("C04", f"C04|datadir_file|{spec['key']}", _what(spec, hist, si, f"file {fp} holds {raw!r:.60}, expected {w!r:.60}")))
    return probs


def _abbr(sigs):
    return {p: s[:8] for p, s in sorted(sigs.items())}


def _what(spec, hist, si, msg):
    return f"[{spec['id']}] history {list(hist[:si + 1])}: {msg}"
