"""Shared driver for the history-based checks (C01, C02, C03, C04)."""
from .. import core, pool
from ..core import Result, Violation
from . import jobs as J


def plan(tier, prop):
    """[(spec, entries, store, depth, oracles, same_entry)]"""
    from . import family as F
    if prop == "C04":
        items = []
        for sp in F.c04_programs():
            for st in ("memory", "local", "local_cache2", "dbfs"):
                if tier == "quick" and st in ("local_cache2",) and "chain" in sp["id"]:
                    continue
                items.append((sp, ["eval_root", "eval_sub"], st, 2 if tier == "quick" else 3, {prop}, (False, ("inproc", "restart"))))
                # revert histories (A, B, A) of a kept top-level node with nested keeps: depth 3 over the leaf's edit point only
                if "top_n0" not in sp["entries"]:
                    continue
                sp3 = dict(sp, eps=[e for e in sp["eps"] if e["id"] == "V2"], id=sp["id"] + "/top")
                if st in ("local", "local_cache2", "dbfs") and (tier != "quick" or "fan" in sp["id"]):
                    # two long-lived processes alternate on one store (each keeps its object cache and in-process state)
                    items.append((sp3, ["top_n0", "eval_root"], st, 3, {prop}, (True, ("inproc", "switch"))))
                if tier != "quick" or st in ("memory", "local"):
                    items.append((sp3, ["top_n0"], st, 3, {prop}, True))
                    items.append((sp3, ["top_n0", "eval_root"], st, 2, {prop}, (False, ("inproc", "restart"))))
        if tier != "quick":
            for sp in F.unit_programs("quick"):
                if sp["key"].startswith(("var|type=int", "body|", "arg|kind=lit")):
                    items.append((sp, list(sp["entries"]), "local", 2, {prop}, True))
        return items
    units = F.unit_programs("quick" if tier == "quick" else "thorough")
    comps = F.composites()
    items = []
    depth = 2 if tier == "quick" else 3
    for sp in units:
        if prop == "C01" and sp["key"].startswith("ext|"):
            continue  # C01 histories never edit non-accepted modules (what they return is untracked by the user's choice)
        ents = list(sp["entries"])
        core = sp["key"].startswith(("var|type=int|access=name", "body|pos=self", "arg|kind=lit_pos|type=int"))
        if prop == "C02":
            # copies to another accepted package and entry-style switches
            items.append((sp, ents[:1] if tier == "quick" else ents, "memory", 2, {prop}, (True, ("inproc", "restart", "copy"))))
            from .family import ENTRY_PAIRS
            for a, b in ENTRY_PAIRS:
                if a in sp["entries"] and b in sp["entries"] and (tier != "quick" or core or sp["id"].endswith("/direct") or sp["key"].startswith(("arg|", "nested_rt_keep", "none_result"))):
                    items.append((sp, [a, b], "memory" if tier == "quick" else "local", 2, {prop}, (False, ("inproc", "restart"))))
        if prop == "C01" and sp["key"].startswith(("var|type=list|access=name", "var|type=dict|access=name", "var|type=nested|access=name", "var|type=odict|access=from")) \
                and sp["id"].endswith(("/direct", "/helper2")):
            # the user turns list / dict tracking off for one evaluation and back on: later evaluations must see edits again
            items.append((sp, ["eval_root", "direct"], "memory", 3, {prop}, (True, ("inproc", "optflip"))))
        if prop in ("C01", "C03") and sp["key"].startswith(("drop_helper", "body|pos=helper|form=plain|ctx=stmt", "var|type=int|access=name")) \
                and (sp["key"].startswith("drop_helper") or sp["id"].endswith(("/helper2/plain/stmt/main", "/direct"))):
            # edits followed by a re-import of the program's modules in the same process
            items.append((sp, ["eval_root", "direct"], "memory", 2 if tier == "quick" else 3, {prop}, (True, ("inproc", "reimport"))))
        if tier == "quick":
            qents = ents if core else [e for e in ents if e in ("eval_root", "direct")]
            if prop != "C02":
                items.append((sp, qents, "memory", depth, {prop}, True))
            items.append((sp, ents[:1] if not core else ents, "local", depth, {prop}, True))
        else:
            for st in ("memory", "local", "local_cache2", "local_cache100") + (("noop",) if prop == "C01" else ()):
                items.append((sp, ents, st, depth if st == "memory" else 2, {prop}, True))
    for sp in comps:
        n = len([f for f in sp["funcs"] if f["name"].startswith("N")])
        if tier == "quick" and n > 3:
            continue
        # composite cubes are 2^n: depth 2 for n <= 2, depth 1 + pairwise coverage through depth 2 on n == 3 in thorough
        d = 2 if (n <= 2 or tier != "quick") else 1
        items.append((sp, ["eval_root"], "memory", d, {prop}, True))
        if tier != "quick":
            items.append((sp, ["eval_root"], "local_cache2", 2 if n <= 2 else 1, {prop}, True))
    return items


def run_plan(prop, level, items, extra=None):
    res = Result(prop, level)
    items = sorted(items, key=lambda it: -len(it[0].get("eps", [])) * it[3])
    outs = pool.pmap(J.run_hist_job, items, chunk=1 if len(items) < 400 else 4)
    hist = evals = states = 0
    samples = []
    outcome_total = 0
    for o in outs:
        hist += o["histories"]
        evals += o["evals"]
        states += o["states"]
        outcome_total += o["outcomes"]
        if o["sample"] and len(samples) < 4 and (len(samples) == 0 or o["id"][:5] != samples[-1]["program"][:5]):
            samples.append(o["sample"])
        for p, key, what, case in o["problems"]:
            if p == prop:
                res.violations.append(Violation(prop, key, what, dict(case, mode="hist")))
    res.violations.sort(key=lambda v: (len(v.replay["hist"]), len(str(v.replay["spec"]))))
    res.coverage = dict(states=max(states, 1), transitions=evals, traces_validated_against_impl=evals,
                        programs=len({it[0]["id"] for it in items}), program_store_entry_combinations=len(items), histories=hist,
                        distinct_outcomes=outcome_total, exhaustive=True, samples=samples)
    if extra:
        res.coverage.update(extra)
    return res, outs


def replay(prop, case):
    core.ensure_repo_dds()
    return [Violation(prop, k, what, case) for _, k, what in J.replay_hist(case, prop)]
