"""Programs of the family run where the code lives outside a package: as a __main__ script (one real interpreter per
step, persistent local store) and as IPython cells (one shell, cells re-defined between evaluations). The
reference is the same text run with a stub `dds` package first on sys.path (a separate interpreter)."""
import json
import os
import shutil
import subprocess
import tempfile

from .. import core
from . import spec as S
from .world import PIPELOG, PIPEHELP, REFDDS

DRIVER = '''
def __vt_entry():
    return {call}

if __name__ == "__main__":
    import json as __json, sys as __sys
    if hasattr(dds, "__vt_stub__"):
        dds.committed.update(__json.load(open(__sys.argv[1] + "/ref_committed.json")) if __import__("os").path.exists(__sys.argv[1] + "/ref_committed.json") else {{}})
    else:
        import logging as __logging
        __logging.disable(__logging.CRITICAL)
        dds.set_store("local", internal_dir=__sys.argv[1] + "/i", data_dir=__sys.argv[1] + "/d")
    pipelog.cur[:] = []
    try:
        __out = ["ok", __vt_entry()]
    except BaseException as __e:
        __out = ["exc", type(__e).__name__, str(__e)[:200]]
    if hasattr(dds, "__vt_stub__"):
        dds.committed.update(dict(dds.kept))
        __json.dump(dds.committed, open(__sys.argv[1] + "/ref_committed.json", "w"))
    print("RESULT " + __json.dumps([__out, list(pipelog.cur)]))
'''


def entry_call(spec, variant, entry):
    e = spec["entries"][entry]
    r = S.Renderer(spec, variant, "x", "y")
    args = [r.epv(a) for a in e.get("args", [])] + [f"{k}={r.epv(a)}" for k, a in e.get("kwargs", [])]
    if e["kind"] == "eval":
        return "dds.eval(" + ", ".join([e["fn"]] + args) + ")"
    if e["kind"] == "keep":
        return "dds.keep(" + ", ".join([repr(e["path"]), e["fn"]] + args) + ")"
    return e["fn"] + "(" + ", ".join(args) + ")"


def script_text(spec, variant, entry):
    assert spec["modules"] == ["main"] or all(f["module"] == "main" for f in spec["funcs"]), "single-module programs only"
    r = S.Renderer(spec, variant, "unused", "unused")
    return r.module("main") + DRIVER.format(call=entry_call(spec, variant, entry))


def _setup(root):
    os.makedirs(os.path.join(root, "helpers"))
    os.makedirs(os.path.join(root, "ref", "dds"))
    open(os.path.join(root, "helpers", "pipelog.py"), "w").write(PIPELOG)
    open(os.path.join(root, "helpers", "pipehelp.py"), "w").write(PIPEHELP)
    open(os.path.join(root, "ref", "dds", "__init__.py"), "w").write(REFDDS + "\n__vt_stub__ = True\n")
    os.makedirs(os.path.join(root, "store_real"))
    os.makedirs(os.path.join(root, "store_ref"))


def _run(root, script, ref, hashseed=0):
    env = dict(os.environ, PYTHONDONTWRITEBYTECODE="1", PYTHONHASHSEED=str(hashseed))
    paths = [os.path.join(root, "helpers")] + ([os.path.join(root, "ref")] if ref else [core.REPO])
    env["PYTHONPATH"] = os.pathsep.join(paths)
    p = subprocess.run([core.PY, script, os.path.join(root, "store_ref" if ref else "store_real")], capture_output=True, text=True, env=env, cwd=root, timeout=300)
    for line in p.stdout.splitlines():
        if line.startswith("RESULT "):
            return json.loads(line[7:])
    return [["crash", (p.stderr or p.stdout)[-400:]], []]


def run_script_history(spec, entry, variant_seq):
    """-> list of (real [out, log], ref [out, log]) per step; every step is a new interpreter on the same store"""
    root = tempfile.mkdtemp(prefix="ddsvt_script_")
    out = []
    try:
        _setup(root)
        script = os.path.join(root, "pipeline_script.py")
        for i, v in enumerate(variant_seq):
            open(script, "w").write(script_text(spec, v, entry))
            # every step is a new interpreter with another hash seed: what one run stored must be found by the next
            out.append((_run(root, script, False, hashseed=i + 1), _run(root, script, True)))
    finally:
        shutil.rmtree(root, ignore_errors=True)
    return out


IPY = '''import sys, json
from IPython.core.interactiveshell import InteractiveShell
sh = InteractiveShell.instance()
steps = json.load(open(sys.argv[1]))
store = sys.argv[2]
res = []
first = True
for cell, call in steps:
    r = sh.run_cell(cell)
    if not r.success:
        res.append([["crash", str(r.error_in_exec or r.error_before_exec)[:300]], []])
        continue
    if first:
        first = False
        sh.run_cell("import logging as _lg\\n_lg.disable(_lg.CRITICAL)\\nif not hasattr(dds, '__vt_stub__'):\\n    dds.set_store('local', internal_dir=%r + '/i', data_dir=%r + '/d')" % (store, store))
    sh.run_cell("pipelog.cur[:] = []\\ntry:\\n    _vt_out = ['ok', " + call + "]\\nexcept BaseException as _e:\\n    _vt_out = ['exc', type(_e).__name__, str(_e)[:200]]\\nif hasattr(dds, '__vt_stub__'):\\n    dds.committed.update(dict(dds.kept)); dds.kept[:] = []")
    res.append([sh.user_ns.get("_vt_out"), list(sh.user_ns["pipelog"].cur)])
print("RESULT " + json.dumps(res))
'''


def run_ipython_history(spec, entry, variant_seq):
    """cells are (re-)defined in one shell between evaluations -> list of (real, ref) per step"""
    root = tempfile.mkdtemp(prefix="ddsvt_ipy_")
    try:
        _setup(root)
        steps = []
        for v in variant_seq:
            r = S.Renderer(spec, v, "unused", "unused")
            steps.append([r.module("main"), entry_call(spec, v, entry)])
        json.dump(steps, open(os.path.join(root, "steps.json"), "w"))
        open(os.path.join(root, "drive.py"), "w").write(IPY)
        res = {}
        for ref in (False, True):
            env = dict(os.environ, PYTHONDONTWRITEBYTECODE="1", PYTHONHASHSEED="0", IPYTHONDIR=os.path.join(root, "ipy"))
            env["PYTHONPATH"] = os.pathsep.join([os.path.join(root, "helpers")] + ([os.path.join(root, "ref")] if ref else [core.REPO]))
            p = subprocess.run([core.PY, os.path.join(root, "drive.py"), os.path.join(root, "steps.json"), os.path.join(root, "store_ref" if ref else "store_real")],
                               capture_output=True, text=True, env=env, cwd=root, timeout=300)
            got = None
            for line in p.stdout.splitlines():
                if line.startswith("RESULT "):
                    got = json.loads(line[7:])
            res[ref] = got if got is not None else [[["crash", (p.stderr or p.stdout)[-400:]], []]] * len(variant_seq)
        return list(zip(res[False], res[True]))
    finally:
        shutil.rmtree(root, ignore_errors=True)


# ------------------------------------------------------------------ check jobs

def single_module(spec):
    return (all(f["module"] == "main" for f in spec["funcs"]) and all(v["module"] == "main" for v in spec["vars"])
            and not spec.get("ext") and not spec.get("reexport"))


def placement_job(items):
    """items: (spec, entry, placement) -> list of (problems, nsteps); problems: (prop, key, what, case)"""
    out = []
    for spec, entry, placement in items:
        vs = list(S.variants(spec))
        seq = [vs[0], vs[-1], vs[0], vs[0]] if len(vs) > 1 else [vs[0], vs[0]]
        runner = run_script_history if placement == "script" else run_ipython_history
        steps = runner(spec, entry, seq)
        kept = {fn for _, fn in S.kept_nodes(spec)}
        probs = []
        case = {"mode": "placement", "spec": spec, "entry": entry, "placement": placement}
        for i, (real, ref) in enumerate(steps):
            label = f"[{spec['id']} as {placement}, {entry}] step {i + 1} of variants {[S.vkey(v) for v in seq]}"
            if ref[0][0] == "ok":
                if real[0][0] == "ok" and real[0][1] != ref[0][1]:
                    probs.append(("C01", f"C01|stale|placement={placement}|{spec['key']}", f"{label}: dds returned {real[0][1]!r}, plain execution {ref[0][1]!r}", case))
                elif real[0][0] == "exc" and real[0][1] == "DDSException" and spec.get("may_refuse") and not real[1] \
                        and "kept more than once" in str(real[0][2:]):
                    pass  # the refusal this program allows (OVERLAPPING_PATH before anything ran)
                elif real[0][0] != "ok":
                    probs.append(("C01", f"C01|raises|{real[0][1][:40] if real[0][0] == 'exc' else 'crash'}|placement={placement}|{spec['key']}",
                                  f"{label}: dds run gave {real[0]!r}, plain execution returned {ref[0][1]!r}", case))
            if i >= 2 and real[0][0] == "ok":
                ran = [n for n in real[1] if n in kept]
                if ran:
                    probs.append(("C02", f"C02|recomputed|{'revert' if i == 2 else 'same_state'}|placement={placement}|{spec['key']}",
                                  f"{label}: kept function(s) {ran} executed although this state was evaluated before on this store", case))
        out.append((probs, len(steps)))
    return out


def placement_plan(tier):
    from . import family as F
    items = []
    units = [sp for sp in F.unit_programs("quick") if single_module(sp)]
    if tier == "quick":
        want = ("var|type=int|", "var|type=bool|", "var|type=list|", "var|type=dict|", "var|type=none_int|", "body|pos=self", "body|pos=helper|form=plain|ctx=stmt",
                "body|pos=method", "body|pos=hof", "arg|kind=lit_pos|type=int", "arg|kind=lit_kw|type=str", "arg|kind=default|type=none", "arg|kind=rt_var",
                "arg|kind=rt_ml3_lit", "twice_rt|x_default", "arg|kind=default_twice")
        units = [sp for sp in units if sp["key"].startswith(want) and not sp["id"].endswith(("/helper1", "/helper5", "/init"))]
        seen, uniq = set(), []
        for sp in units:  # one program per cause-key class
            if sp["key"] not in seen:
                seen.add(sp["key"])
                uniq.append(sp)
        units = uniq
    comps = [sp for sp in F.composites() if len([f for f in sp["funcs"] if f["name"].startswith("N")]) <= (2 if tier == "quick" else 3)]
    if tier == "quick":
        comps = comps[::7]
    for sp in units + comps:
        ents = [e for e in sp["entries"] if e in ("eval_root", "direct", "keep_K")]
        for e in (ents[:1] if (tier == "quick" and not sp["key"].startswith("var|type=int|access=name")) else ents):
            for pl in ("script", "ipython"):
                items.append((sp, e, pl))
    return items
