"""Pool jobs: run all histories of (spec, entries, store, depth) in a worker and return problems + counts."""
import os
import shutil
import tempfile
import time

from .. import core
from . import explore as X
from . import spec as S
from .world import World

_WORLD = None


def world():
    global _WORLD
    if _WORLD is None:
        core.ensure_repo_dds()
        time.time = lambda: 1.6e9
        scratch = tempfile.mkdtemp(prefix="ddsvt_prog_")
        _WORLD = World(scratch)
        import atexit
        atexit.register(shutil.rmtree, scratch, True)
    return _WORLD


def run_hist_job(items):
    """items: (spec, entries, store_kind, depth, oracles, same_entry) -> list of result dicts"""
    w = world()
    out = []
    for spec, entries, store_kind, depth, oracles, same_entry in items:
        nvar = len(list(S.variants(spec)))
        hows = ("inproc", "restart")
        if isinstance(same_entry, tuple):
            same_entry, hows = same_entry
        hs = X.maximal(X.histories(nvar, entries, depth, hows=hows, same_entry=same_entry))
        sigtab = {}
        probs = []
        nev = 0
        nh = 0
        outcomes = set()
        sample = None
        for h in hs:
            try:
                p, n, obs = X.run_history(w, spec, h, store_kind, oracles, sigtab)
            except BaseException as e:  # noqa
                import traceback
                raise core.HarnessError(f"history {h} of {spec['id']} ({store_kind}): {type(e).__name__}: {e}\n{traceback.format_exc()[-1500:]}")
            nev += n
            nh += 1
            for o in obs:
                outcomes.add((o["real"][0], tuple(o["log"])))
            if sample is None:
                sample = {"program": spec["id"], "store": store_kind, "history": [list(s) for s in h],
                          "observed": [[o["real"][0], str(o["real"][1])[:80], o["log"]] for o in obs]}
            for pr in p:
                prop, key, what = pr[:3]
                case = {"spec": spec, "hist": [list(s) for s in h], "store": store_kind, "oracles": sorted(oracles)}
                if len(pr) > 3:
                    case.update(pr[3])
                probs.append((prop, key, what, case))
        out.append(dict(id=spec["id"], store=store_kind, histories=nh, evals=nev, states=len(sigtab), outcomes=len(outcomes),
                        problems=probs, sample=sample,
                        sigtab={f"{k[1]}|{k[2]}": v[0] for k, v in sigtab.items()}))
    return out


def replay_hist(case, prop):
    w = world()
    spec = case["spec"]
    h = tuple(tuple(s) for s in case["hist"])
    sigtab = {}
    if case.get("prev_hist"):
        X.run_history(w, spec, tuple(tuple(s) for s in case["prev_hist"]), case["prev_store"], set(case["oracles"]), sigtab)
    p, n, obs = X.run_history(w, spec, h, case["store"], set(case["oracles"]), sigtab)
    return [(pr[0], pr[1], pr[2]) for pr in p if pr[0] == prop]
