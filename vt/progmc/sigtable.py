"""Computes the signature table of the program family in the current interpreter / environment.

python -m vt.progmc.sigtable <json job>   ->   prints 'TABLE ' + json {"<program>|<variant>|<entry>": {path: signature}}
Every (program, variant) is evaluated in a fresh virtual process on an empty store.
"""
import json
import os
import shutil
import sys
import tempfile


def programs(level):
    from . import family as F
    units = F.unit_programs("quick")
    comps = [sp for sp in F.composites() if len([f for f in sp["funcs"] if f["name"].startswith("N")]) <= (2 if level == "quick" else 3)]
    if level == "quick":
        keep = ("var|type=int|", "var|type=bool|access=name", "var|type=list|access=from", "var|type=dict|access=name", "var|type=odict|access=name",
                "var|type=ppath|access=name", "var|type=float|access=name", "var|type=str|access=name", "var|type=tuple|access=name",
                "var|type=none_int|access=name", "var|type=nested|access=name", "var|type=relpath|access=name", "var|type=date|access=name",
                "var|type=cfunc|access=from", "var|type=dict_order|access=name", "body|", "arg|", "ext|", "struct|", "untracked", "twice_rt", "import_inside_function", "shadow")
        units = [sp for sp in units if sp["key"].startswith(keep) and (not sp["key"].startswith("var|") or sp["id"].endswith(("/direct", "/helper2", "/stmt/from", "/method")) or "ctx=" in sp["key"])]
    from ..checks import c09
    loads = [c09.make_spec(pl, pr) for pl in c09.PLACEMENTS for pr in ("datafn", "keepcall")]
    for sp in loads:
        sp["entries"] = {"both": sp["entries"]["both"]}
    return units + comps + loads


def table(job):
    from .. import core
    core.ensure_repo_dds()
    import time
    time.time = lambda: 1.6e9
    from . import spec as S
    from .world import World, Prog
    import dds
    scratch = tempfile.mkdtemp(prefix="ddsvt_sig_")
    pkgroot = job.get("pkgroot") or scratch
    os.makedirs(pkgroot, exist_ok=True)
    out = {}
    try:
        if job.get("builtin_named_modules"):
            # importable modules that merely share their name with a builtin used by the programs (a project with a str.py,
            # list.py, range.py ... next to the script): nothing imports them
            d = os.path.join(scratch, "cwd_like")
            os.makedirs(d)
            for n in ("str", "len", "list", "range", "sorted", "dict", "set", "print", "filter", "format", "type", "input",
                      # ... or with a name the programs only use for a lambda / nested-def parameter, an 'except ... as' target, a loop variable
                      "row", "err", "q", "_k", "kindcap", "firstcap", "restcap", "otherscap",
                      # ... or a name bound by an import statement / a def inside the function body
                      "h1", "_inner0", "_inner1",
                      # ... or the parameter of a method
                      "self"):
                open(os.path.join(d, n + ".py"), "w").write("IMPORTED_BY_ACCIDENT = True\n")
            sys.path.insert(0, d)
        w = World(scratch)
        if job.get("cwd"):
            os.chdir(job["cwd"])
        if job.get("debug") is not None:
            dds.set_option("extra_debug", bool(job["debug"]))
            w.pristine = __import__("vt.progmc.world", fromlist=["x"])._dds_data_attrs()
        plist = programs(job.get("level", "quick"))
        sh = job.get("shard")
        if sh:
            plist = [sp for i, sp in enumerate(plist) if i % sh[1] == sh[0]]
        for sp in plist:
            vs = list(S.variants(sp))
            if len(vs) > 4:
                vs = vs[:1] + vs[-1:]
            for v in vs:
                prog = Prog(w, sp, job.get("store", "memory"), pkgroot=pkgroot)
                try:
                    for entry in sp["entries"]:
                        prog.persist = None
                        shutil.rmtree(prog.store_dir, ignore_errors=True)
                        prog.goto(v, "restart")
                        opts = {}
                        if job.get("export"):
                            opts["dds_export_graph"] = os.path.join(scratch, "g.dot_unused.plain")
                        if job.get("debug_call") is not None:
                            opts["dds_extra_debug"] = bool(job["debug_call"])
                        real, ref = prog.run(entry, opts=opts if sp["entries"][entry]["kind"] == "eval" else None)
                        key = f"{sp['id']}|{S.vkey(v)}|{entry}"
                        out[key] = dict(real.sigs) if real.status == "ok" else {"__status__": f"{real.exc}[{real.code}]"}
                finally:
                    prog.cleanup()
    finally:
        os.chdir("/")
        shutil.rmtree(scratch, ignore_errors=True)
        if job.get("pkgroot"):
            shutil.rmtree(job["pkgroot"], ignore_errors=True)
    return out


if __name__ == "__main__":
    job = json.loads(sys.argv[1])
    t = table(job)
    print("TABLE " + json.dumps(t, sort_keys=True))
