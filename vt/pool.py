"""Process pool helper: chunked parallel map over picklable case descriptions."""
import multiprocessing as mp
import os
from typing import Callable, Iterable, List

from . import core


def _init():
    os.environ.setdefault("PYTHONDONTWRITEBYTECODE", "1")
    import sys
    sys.dont_write_bytecode = True


def pmap(fn: Callable, items: Iterable, chunk: int = 0, procs: int = 0) -> List:
    """fn(list_of_items) -> list_of_results ; order preserved."""
    items = list(items)
    procs = procs or core.ncpu()
    if not items:
        return []
    if procs == 1 or len(items) == 1 or os.environ.get("VERIF_SERIAL"):
        return fn(items)
    if not chunk:
        chunk = max(1, min(200, (len(items) + procs * 4 - 1) // (procs * 4)))
    chunks = [items[i:i + chunk] for i in range(0, len(items), chunk)]
    ctx = mp.get_context("fork")
    # one fresh fork of the parent per chunk: what a chunk observes never depends on which chunks its worker ran before
    with ctx.Pool(procs, initializer=_init, maxtasksperchild=1) as pool:
        outs = pool.map(fn, chunks, chunksize=1)
    res = []
    for o in outs:
        res.extend(o)
    return res
