"""Virtual processes over the VFS: controlled scheduler, interleaving exploration (DFS with exact state keys,
optional preemption bound) and crash-point enumeration, on the real dds code.

A virtual process = a thread + a private copy of every module-level data attribute of every dds.* module
(+ pipelog). Exactly one thread runs at a time; context switches happen only inside an intercepted
file-system primitive.
"""
import copy
import hashlib
import os
import sys
import tempfile
import threading
import time
import types
import uuid

from . import intercept as I
from .vfs import VFS, VROOT


class Abort(BaseException):
    pass


class Kill(BaseException):
    pass


def _swapped_modules():
    return [n for n in list(sys.modules) if (n == "dds" or n.startswith("dds.") or n == "pipelog") and sys.modules[n] is not None]


def _data_attrs():
    out = {}
    for name in _swapped_modules():
        mod = sys.modules[name]
        for k, v in vars(mod).items():
            if k.startswith("__"):
                continue
            if isinstance(v, (types.FunctionType, types.ModuleType, type, types.BuiltinFunctionType)):
                continue
            if type(v).__module__ in ("typing", "logging"):
                continue
            if callable(v) and not isinstance(v, (dict, list, set)):
                continue
            out[(name, k)] = v
        # mutable class-level attributes of the library's classes belong to the process image too
        for cn, c in vars(mod).items():
            if isinstance(c, type) and getattr(c, "__module__", None) == name:
                for k, v in vars(c).items():
                    if not k.startswith("__") and isinstance(v, (dict, list, set)):
                        out[(name, cn, k)] = v
    return out


def _owner(key):
    return sys.modules[key[0]] if len(key) == 2 else getattr(sys.modules[key[0]], key[1])


def _fresh_copy(v, memo):
    try:
        return copy.deepcopy(v, memo)
    except Exception:  # noqa
        try:
            return type(v)()
        except Exception:  # noqa
            return v


class Machine:
    """Owns the pristine process image and the sources of nondeterminism."""

    def __init__(self):
        import dds  # noqa
        import dds._api, dds.codec, dds._config, dds.introspect, dds._global_ctx, dds.store, dds._lru_store  # noqa
        import pipelog  # noqa
        I.install()
        self.pristine = _data_attrs()
        self.keys = list(self.pristine.keys())
        self.current = None  # VProc running now
        self._patch_nondeterminism()

    def fresh_image(self):
        memo = {}
        return {k: _fresh_copy(v, memo) for k, v in self.pristine.items()}

    def install(self, image):
        for key, v in image.items():
            setattr(_owner(key), key[-1], v)

    def capture(self):
        return {key: getattr(_owner(key), key[-1]) for key in self.keys}

    def _patch_nondeterminism(self):
        m = self
        time.time = lambda: 1.6e9
        time.time_ns = lambda: int(1.6e18)
        real_getpid = os.getpid

        def getpid():
            p = m.current
            return 1000 + p.id if p is not None else real_getpid()
        os.getpid = getpid
        real_uuid4 = uuid.uuid4

        def uuid4():
            p = m.current
            if p is None:
                return real_uuid4()
            p.counter += 1
            return uuid.UUID(int=(p.id << 96) + (p.incarnation << 64) + p.counter)
        uuid.uuid4 = uuid4
        uuid.uuid1 = lambda *a, **k: uuid4()
        real_names = tempfile._get_candidate_names

        class Names:
            def __iter__(self):
                return self

            def __next__(self):
                p = m.current
                if p is None:
                    return next(real_names())
                p.counter += 1
                return f"tmp{p.id}i{p.incarnation}x{p.counter}"
        names = Names()
        tempfile._get_candidate_names = lambda: names if m.current is not None else real_names()
        real_urandom = os.urandom

        def urandom(n):
            p = m.current
            if p is None:
                return real_urandom(n)
            p.counter += 1
            return hashlib.sha256(f"{p.id}:{p.incarnation}:{p.counter}".encode()).digest()[:n].ljust(n, b"\0")
        os.urandom = urandom


class VProc:
    def __init__(self, machine, pid, body, incarnation=0):
        # pid: what os.getpid() answers (1000 + pid); incarnation: distinguishes two processes that got the same pid
        # (the sources of randomness - uuid4, urandom, temporary names - depend on both)
        self.m, self.id, self.body, self.incarnation = machine, pid, body, incarnation
        self.sem = threading.Semaphore(0)
        self.image = machine.fresh_image()
        self.hist = hashlib.sha256()
        self.pending = None
        self.started = False
        self.done = False
        self.result = None
        self.nops = 0
        self.counter = 0
        self.thread = None
        self.trace = []


class Run:
    """One controlled execution of several virtual processes following a choice prefix."""

    def __init__(self, machine, vfs0, bodies, prefix, visited, bound=None):
        self.m = machine
        self.procs = [VProc(machine, i, b) for i, b in enumerate(bodies)]
        self.prefix = prefix
        self.visited = visited
        self.bound = bound
        self.main = threading.Semaphore(0)
        self.abort = False
        self.choices, self.points, self.preempt_cost, self.last_enabled = [], [], [], []
        self.vfs = vfs0.clone()
        self.pruned = False
        self.trace = []

    def _thread(self, p):
        p.sem.acquire()
        try:
            if self.abort:
                raise Abort()
            p.result = ("ok", p.body())
        except Abort:
            p.result = ("abort", None)
        except BaseException as e:  # noqa
            code = getattr(getattr(e, "error_code", None), "name", None)
            p.result = ("exc", type(e).__name__, code, str(e)[:160])
        p.done = True
        p.pending = None
        self.main.release()

    def hook(self, op, args):
        p = self.m.current
        if p is None or threading.current_thread() is not p.thread:
            return
        if self.abort:
            raise Abort()
        p.pending = (op, repr(args)[:200])
        self.main.release()
        p.sem.acquire()
        if self.abort:
            raise Abort()

    def post(self, op, args, res):
        p = self.m.current
        if p is None or threading.current_thread() is not p.thread:
            return
        p.hist.update(repr((op, args, res)).encode())
        p.nops += 1
        self.trace.append((p.id, op, args, res))

    def key(self):
        # with a preemption bound the budget already spent is part of the state (a state reached more cheaply has more futures)
        used = sum(self.preempt_cost) if self.bound is not None else None
        return hashlib.sha256(repr((self.vfs.snapshot(), used, [(p.hist.hexdigest(), p.pending, p.done, p.started) for p in self.procs])).encode()).digest()

    def _switch(self, p):
        self.m.install(p.image)
        self.m.current = p
        p.started = True
        p.sem.release()
        self.main.acquire()
        p.image = self.m.capture()
        self.m.current = None

    def execute(self):
        I.S.vfs, I.S.hook, I.S.post, I.S.trace = self.vfs, self.hook, self.post, None
        for p in self.procs:
            p.thread = threading.Thread(target=self._thread, args=(p,), daemon=True)
            p.thread.start()
        step = 0
        last = None
        try:
            while True:
                enabled = [p for p in self.procs if not p.done]
                if not enabled:
                    break
                # canonical order: the process that ran last first (continuing it is not a preemption)
                if last is not None and last in enabled:
                    enabled = [last] + [p for p in enabled if p is not last]
                if step >= len(self.prefix):
                    k = self.key()
                    if k in self.visited:
                        self.pruned = True
                        break
                    self.visited.add(k)
                c = self.prefix[step] if step < len(self.prefix) else 0
                if c >= len(enabled):
                    raise RuntimeError(f"replay divergence at step {step}: choice {c} of {len(enabled)}")
                self.points.append(len(enabled))
                self.choices.append(c)
                le = last is not None and last in enabled
                self.last_enabled.append(le)
                self.preempt_cost.append(1 if (le and c != 0) else 0)
                p = enabled[c]
                self._switch(p)
                last = p
                step += 1
        finally:
            if any(not p.done for p in self.procs):
                self.abort = True
                for p in self.procs:
                    while not p.done:
                        self._switch(p)
            I.S.hook = I.S.post = None
        return self


def explore(machine, vfs0, bodies, bound=None, max_runs=200000, on_complete=None, time_cap=None):
    """DFS over schedules. Returns stats dict. on_complete(run) is called for every complete execution."""
    visited = set()
    stack = [[]]
    runs = complete = 0
    t0 = time.perf_counter()
    capped = None
    transitions = 0
    max_pre = 0
    while stack:
        if runs >= max_runs:
            capped = f"max_runs={max_runs}"
            break
        if time_cap and time.perf_counter() - t0 > time_cap:
            capped = f"time={time_cap}s"
            break
        prefix = stack.pop()
        r = Run(machine, vfs0, bodies, prefix, visited, bound).execute()
        runs += 1
        transitions += max(0, len(r.choices) - len(prefix))
        if not r.pruned:
            complete += 1
            max_pre = max(max_pre, sum(r.preempt_cost))
            if on_complete:
                on_complete(r)
        for i in range(len(prefix), len(r.choices)):
            pre = sum(r.preempt_cost[:i])
            for alt in range(1, r.points[i]):
                cost = pre + (1 if r.last_enabled[i] else 0)
                if bound is not None and cost > bound:
                    continue
                stack.append(r.choices[:i] + [alt])
    return dict(runs=runs, complete=complete, states=len(visited), transitions=transitions, capped=capped,
                max_preemptions=max_pre, secs=round(time.perf_counter() - t0, 2))


def run_sequential(machine, vfs, body, kill_at=None, pid=0, incarnation=0, fail_at=None):
    """Runs one virtual process to completion on `vfs` (mutated in place). With kill_at=k the process is killed
    at its k-th file-system primitive: that primitive and all later ones are refused. With fail_at=k the k-th primitive
    is not executed and raises OSError(EIO) once (a transient I/O error); the process goes on as its code decides.
    -> (result, number of primitives executed, trace)"""
    p = VProc(machine, pid, body, incarnation)
    state = {"n": 0, "dead": False}
    trace = []

    def hook(op, args):
        if state["dead"]:
            raise Kill()
        if kill_at is not None and state["n"] == kill_at:
            state["dead"] = True
            raise Kill()
        if fail_at is not None and state["n"] == fail_at:
            state["n"] += 1
            trace.append((pid, op, args, ("err", "injected EIO")))
            import errno
            raise OSError(errno.EIO, "Input/output error (injected)")
        state["n"] += 1

    def post(op, args, res):
        trace.append((pid, op, args, res))

    I.S.vfs, I.S.hook, I.S.post, I.S.trace = vfs, hook, post, None
    machine.install(p.image)
    machine.current = p
    try:
        try:
            res = ("ok", body())
        except Kill:
            res = ("killed", None)
        except BaseException as e:  # noqa
            if state["dead"]:
                res = ("killed", None)
            else:
                code = getattr(getattr(e, "error_code", None), "name", None)
                res = ("exc", type(e).__name__, code, str(e)[:160])
    finally:
        machine.current = None
        I.S.hook = I.S.post = None
    return res, state["n"], trace
