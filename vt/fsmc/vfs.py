"""In-memory POSIX file-system model (inodes, directories, regular files, symlinks) with Linux errno behaviour.

All paths handled here are absolute and start with VROOT. Timestamps and inode numbers are not modelled
(st_ino is stable per inode, st_mtime is 0).
"""
import errno
import os
import stat as statmod

VROOT = "/__vfs__"


class Inode:
    __slots__ = ("kind", "data", "ino")
    _next = [1]

    def __init__(self, kind, data=None):
        self.kind = kind  # 'd', 'f', 'l'
        if data is None:
            data = {} if kind == "d" else (bytearray() if kind == "f" else "")
        self.data = data
        Inode._next[0] += 1
        self.ino = Inode._next[0]


def _err(no, path):
    return OSError(no, os.strerror(no), path)


class VFS:
    def __init__(self):
        self.root = Inode("d")

    # ------------------------------------------------------------ path resolution
    @staticmethod
    def parts(path):
        path = os.fspath(path)
        if isinstance(path, bytes):
            path = path.decode()
        if not (path == VROOT or path.startswith(VROOT + "/")):
            raise _err(errno.EXDEV, path)
        return [p for p in path[len(VROOT):].split("/") if p]

    def _walk(self, parts, follow_last, path, depth=0):
        """-> (parent inode, name, inode or None). '.' and '..' handled; symlinks followed (ELOOP after 40)."""
        if depth > 40:
            raise _err(errno.ELOOP, path)
        cur = self.root
        stack = []
        i = 0
        n = len(parts)
        if n == 0:
            return (None, "", self.root)
        while i < n:
            name = parts[i]
            last = i == n - 1
            if cur.kind != "d":
                raise _err(errno.ENOTDIR, path)
            if name == ".":
                if last:
                    return (stack[-1][0] if stack else None, stack[-1][1] if stack else "", cur)
                i += 1
                continue
            if name == "..":
                if stack:
                    cur = stack.pop()[0]
                if last:
                    return (stack[-1][0] if stack else None, "", cur)
                i += 1
                continue
            child = cur.data.get(name)
            if child is None:
                if last:
                    return (cur, name, None)
                raise _err(errno.ENOENT, path)
            if child.kind == "l" and (not last or follow_last):
                tgt = child.data
                if tgt.startswith("/"):
                    tparts = self.parts(tgt) if (tgt == VROOT or tgt.startswith(VROOT + "/")) else None
                    if tparts is None:
                        raise _err(errno.ENOENT, path)  # a link out of the virtual root dangles
                    base = []
                else:
                    tparts = [p for p in tgt.split("/") if p]
                    base = [s[1] for s in stack] + []
                    # names of the directories from the root to cur
                    base = self._names_to(cur, stack)
                newparts = base + tparts + parts[i + 1:]
                return self._walk(newparts, follow_last, path, depth + 1)
            if last:
                return (cur, name, child)
            stack.append((cur, name))
            cur = child
            i += 1
        return (None, "", cur)

    def _names_to(self, cur, stack):
        # stack holds (dir inode, name of the child entered from it)
        return [name for (_d, name) in stack]

    def lookup(self, path, follow=True):
        parent, name, node = self._walk(self.parts(path), follow, path)
        if node is None:
            raise _err(errno.ENOENT, path)
        return node

    def lookup_parent(self, path):
        """parent directory inode and final name for creating/removing an entry (final component not followed)"""
        parts = self.parts(path)
        if not parts:
            raise _err(errno.EEXIST, path)
        parent, name, node = self._walk(parts, False, path)
        if parent is None or name in ("", ".", ".."):
            raise _err(errno.EINVAL if node is None else errno.EEXIST, path)
        return parent, name, node

    # ------------------------------------------------------------ operations
    def stat(self, path, follow=True):
        return self._st(self.lookup(path, follow))

    @staticmethod
    def _st(node):
        mode = {"d": statmod.S_IFDIR | 0o755, "f": statmod.S_IFREG | 0o644, "l": statmod.S_IFLNK | 0o777}[node.kind]
        size = len(node.data) if node.kind in ("f", "l") else 0
        return os.stat_result((mode, node.ino, 1, 1, 0, 0, size, 0, 0, 0))

    def mkdir(self, path):
        parent, name, node = self.lookup_parent(path)
        if node is not None:
            raise _err(errno.EEXIST, path)
        parent.data[name] = Inode("d")

    def rmdir(self, path):
        parent, name, node = self.lookup_parent(path)
        if node is None:
            raise _err(errno.ENOENT, path)
        if node.kind != "d":
            raise _err(errno.ENOTDIR, path)
        if node.data:
            raise _err(errno.ENOTEMPTY, path)
        del parent.data[name]

    def unlink(self, path):
        parent, name, node = self.lookup_parent(path)
        if node is None:
            raise _err(errno.ENOENT, path)
        if node.kind == "d":
            raise _err(errno.EISDIR, path)
        del parent.data[name]

    def symlink(self, target, path):
        parent, name, node = self.lookup_parent(path)
        if node is not None:
            raise _err(errno.EEXIST, path)
        parent.data[name] = Inode("l", os.fspath(target))

    def readlink(self, path):
        node = self.lookup(path, follow=False)
        if node.kind != "l":
            raise _err(errno.EINVAL, path)
        return node.data

    def link(self, src, dst):
        node = self.lookup(src, follow=False)
        if node.kind == "d":
            raise _err(errno.EPERM, src)
        parent, name, ex = self.lookup_parent(dst)
        if ex is not None:
            raise _err(errno.EEXIST, dst)
        parent.data[name] = node

    def rename(self, src, dst):
        sp, sn, snode = self.lookup_parent(src)
        if snode is None:
            raise _err(errno.ENOENT, src)
        dp, dn, dnode = self.lookup_parent(dst)
        if dnode is not None:
            if dnode is snode:
                return
            if snode.kind == "d":
                if dnode.kind != "d":
                    raise _err(errno.ENOTDIR, dst)
                if dnode.data:
                    raise _err(errno.ENOTEMPTY, dst)
            elif dnode.kind == "d":
                raise _err(errno.EISDIR, dst)
        del sp.data[sn]
        dp.data[dn] = snode  # atomic replacement of the destination entry

    def listdir(self, path):
        node = self.lookup(path)
        if node.kind != "d":
            raise _err(errno.ENOTDIR, path)
        return sorted(node.data.keys())

    def open_node(self, path, flags):
        """returns the file inode for os.open-style flags"""
        creat, excl, trunc = flags & os.O_CREAT, flags & os.O_EXCL, flags & os.O_TRUNC
        acc = flags & os.O_ACCMODE
        parts = self.parts(path)
        parent, name, node = self._walk(parts, not (creat and excl), path)
        if node is None:
            if not creat:
                raise _err(errno.ENOENT, path)
            if parent is None or parent.kind != "d":
                raise _err(errno.ENOENT, path)
            node = Inode("f")
            parent.data[name] = node
        else:
            if creat and excl:
                raise _err(errno.EEXIST, path)
            if node.kind == "d":
                if acc != os.O_RDONLY or creat:
                    raise _err(errno.EISDIR, path)
                return node
            if node.kind == "l":
                raise _err(errno.ELOOP, path)
            if trunc and acc != os.O_RDONLY:
                del node.data[:]
        return node

    # ------------------------------------------------------------ state
    def snapshot(self, node=None):
        node = node or self.root
        if node.kind == "d":
            return ("d", tuple((k, self.snapshot(v)) for k, v in sorted(node.data.items())))
        if node.kind == "f":
            return ("f", bytes(node.data))
        return ("l", node.data)

    def clone(self):
        new = VFS()
        memo = {}

        def cp(n):
            if id(n) in memo:
                return memo[id(n)]
            if n.kind == "d":
                c = Inode("d")
                memo[id(n)] = c
                c.data = {k: cp(v) for k, v in n.data.items()}
            elif n.kind == "f":
                c = Inode("f", bytearray(n.data))
                memo[id(n)] = c
            else:
                c = Inode("l", n.data)
                memo[id(n)] = c
            return c
        new.root = cp(self.root)
        return new

    def tree(self, node=None, prefix=""):
        node = node or self.root
        out = []
        for k, v in sorted(node.data.items()):
            p = prefix + "/" + k
            if v.kind == "d":
                out.append((p, "d", ""))
                out += self.tree(v, p)
            elif v.kind == "f":
                out.append((p, "f", bytes(v.data)))
            else:
                out.append((p, "l", v.data))
        return out
