"""Validation of the file-system model: replays an operation trace produced on the VFS against a real temporary
directory with the real os / open functions and compares every result and the final tree."""
import errno
import os
import shutil
import stat
import tempfile

from . import intercept as I


REAL_TMP = os.environ.get("VERIF_SCRATCH") or tempfile.gettempdir()


class ModelMismatch(Exception):
    pass


def _real(name):
    return I.S.real.get(name) or getattr(os, name)


def replay(initial_tree, trace, final_tree):
    """initial_tree / final_tree: VFS.tree() lists; trace: [(pid, op, args, res)]"""
    root = tempfile.mkdtemp(prefix="ddsvt_conf_", dir=REAL_TMP)
    ropen = I.S.real.get("bopen") or open
    handles = {}
    try:
        def rp(rel):
            return root + (rel if rel != "/" else "")

        def mapt(t):
            return t.replace("<V>", root)
        for p, kind, data in initial_tree:
            if kind == "d":
                os.makedirs(rp(p), exist_ok=True)
            elif kind == "f":
                with ropen(rp(p), "wb") as f:
                    f.write(data)
            else:
                _real("symlink")(data.replace(I.VROOT, root), rp(p))
        for i, (pid, op, args, res) in enumerate(trace):
            try:
                if op in ("stat", "lstat"):
                    st = (_real("stat") if op == "stat" else _real("lstat"))(rp(args[0]))
                    got = ("ok", ("st", stat.S_IFMT(st.st_mode), st.st_size if stat.S_ISREG(st.st_mode) else 0))
                elif op == "mkdir":
                    _real("mkdir")(rp(args[0]))
                    got = ("ok", None)
                elif op == "rmdir":
                    _real("rmdir")(rp(args[0]))
                    got = ("ok", None)
                elif op == "unlink":
                    _real("unlink")(rp(args[0]))
                    got = ("ok", None)
                elif op == "symlink":
                    _real("symlink")(mapt(args[0]), rp(args[1]))
                    got = ("ok", None)
                elif op == "readlink":
                    got = ("ok", _real("readlink")(rp(args[0])).replace(root, I.VROOT))
                elif op == "rename":
                    _real("rename")(rp(args[0]), rp(args[1]))
                    got = ("ok", None)
                elif op == "link":
                    _real("link")(rp(args[0]), rp(args[1]))
                    got = ("ok", None)
                elif op == "listdir":
                    got = ("ok", sorted(_real("listdir")(rp(args[0]))))
                elif op == "open":
                    mode = args[1]
                    if mode.startswith("flags="):
                        fd = _real("open")(rp(args[0]), int(mode[6:]), 0o644)
                        h = os.fdopen(fd, "r+b" if (int(mode[6:]) & os.O_ACCMODE) == os.O_RDWR else ("wb" if int(mode[6:]) & os.O_ACCMODE else "rb"), buffering=0)
                    else:
                        h = ropen(rp(args[0]), mode + "b", buffering=0)
                    handles.setdefault((pid, args[0]), []).append(h)
                    got = ("ok", "Inode")
                elif op.startswith("write"):
                    h = handles[(pid, args[0])][-1]
                    got = ("ok", h.write(args[1]))
                elif op == "read":
                    h = handles[(pid, args[0])][-1]
                    d = h.read() if args[1] < 0 else h.read(args[1])
                    got = ("ok", d)
                elif op == "truncate":
                    hs = handles.get((pid, args[0]))
                    if hs:
                        got = ("ok", hs[-1].truncate(args[1]))
                    else:
                        _real("truncate")(rp(args[0]), args[1])
                        got = ("ok", None)
                elif op == "close":
                    handles[(pid, args[0])].pop().close()
                    got = ("ok", None)
                elif op == "fsync":
                    got = ("ok", None)
                else:
                    raise ModelMismatch(f"step {i}: operation {op} has no replay rule")
            except OSError as e:
                got = ("err", e.errno)
            want = res
            if want[0] == "err" and got[0] == "err" and {want[1], got[1]} <= {errno.EISDIR, errno.EPERM}:
                continue
            if got != want:
                raise ModelMismatch(f"step {i}: {op}{args!r}: model {want!r}, kernel {got!r}")
        for hs in handles.values():
            for h in hs:
                h.close()
        real_tree = []
        for dp, dns, fns in os.walk(root):
            for n in sorted(dns + fns):
                p = os.path.join(dp, n)
                rel = p[len(root):]
                if os.path.islink(p):
                    real_tree.append((rel, "l", os.readlink(p).replace(root, I.VROOT)))
                elif os.path.isdir(p):
                    real_tree.append((rel, "d", ""))
                else:
                    with ropen(p, "rb") as f:
                        real_tree.append((rel, "f", f.read()))
        if sorted(real_tree) != sorted(final_tree):
            raise ModelMismatch(f"final tree differs: model {sorted(final_tree)[:6]} kernel {sorted(real_tree)[:6]}")
    finally:
        shutil.rmtree(root, ignore_errors=True)
    return True
