"""Routes os / open calls on paths under VROOT to the in-memory VFS; everything else goes to the real functions.

Every routed primitive first calls HOOK(opname, args) (scheduling / crash point), then acts on the current VFS
and records (op, args, result) in TRACE for conformance replay. An operation on a VROOT path that is not
modelled raises HarnessUnsupported.
"""
import builtins
import errno
import io
import os
import threading

from .vfs import VFS, VROOT, _err


class HarnessUnsupported(Exception):
    pass


class State:
    vfs = VFS()
    hook = None          # callable(opname, args) -> None ; may raise to kill the process
    post = None          # callable(opname, args, result) after the operation
    torn = True          # a write of >= 2 bytes is two primitives (first half, second half)
    trace = None         # list or None
    fds = {}             # fd -> VFile
    next_fd = [100000]
    installed = False
    real = {}


S = State


def under(p):
    try:
        p = os.fspath(p)
    except TypeError:
        return False
    if isinstance(p, bytes):
        try:
            p = p.decode()
        except Exception:
            return False
    return isinstance(p, str) and (p == VROOT or p.startswith(VROOT + "/"))


def _rel(p):
    p = os.fspath(p)
    return p[len(VROOT):] or "/"


def _do(op, args, fn):
    """hook, run, trace"""
    if S.hook is not None:
        S.hook(op, args)
    try:
        res = fn()
    except OSError as e:
        if S.trace is not None:
            S.trace.append((op, args, ("err", e.errno)))
        if S.post is not None:
            S.post(op, args, ("err", e.errno))
        raise
    r = ("ok", _summ(res))
    if S.trace is not None:
        S.trace.append((op, args, r))
    if S.post is not None:
        S.post(op, args, r)
    return res


def _summ(res):
    if isinstance(res, os.stat_result):
        import stat
        return ("st", stat.S_IFMT(res.st_mode), res.st_size if stat.S_ISREG(res.st_mode) else 0)
    if isinstance(res, (str, bytes, int, type(None), list, bool)):
        return res
    return type(res).__name__


# ------------------------------------------------------------------ file objects

BUFSIZE = 8192


class VFile(io.BufferedIOBase):
    """Binary file on a VFS inode. Reads are one primitive each. Writes go through a user-space buffer like Python's
    BufferedWriter: the bytes reach the inode (one `write` primitive, possibly torn in two) when the buffer is flushed -
    at flush(), close(), a seek / read, or when more than 8 KiB are pending. buffered=False (os.open / buffering=0): every
    write call is a primitive."""

    def __init__(self, node, path, readable, writable, append, buffered=True):
        self._node, self._path = node, path
        self._r, self._w, self._append = readable, writable, append
        self._buffered = buffered
        self._buf = bytearray()
        self._pos = len(node.data) if append else 0
        self._closed = False
        self._fd = S.next_fd[0]
        S.next_fd[0] += 1
        S.fds[self._fd] = self
        self.name = path

    def readable(self):
        return self._r

    def writable(self):
        return self._w

    def seekable(self):
        return True

    def fileno(self):
        return self._fd

    @property
    def closed(self):
        return self._closed

    def _check(self):
        if self._closed:
            raise ValueError("I/O operation on closed file")

    def read(self, n=-1):
        self._check()
        if not self._r:
            raise io.UnsupportedOperation("not readable")
        self._flush_buf()

        def f():
            data = bytes(self._node.data[self._pos:] if (n is None or n < 0) else self._node.data[self._pos:self._pos + n])
            self._pos += len(data)
            return data
        return _do("read", (_rel(self._path), n if n is not None else -1), f)

    def read1(self, n=-1):
        return self.read(n)

    def readinto(self, b):
        data = self.read(len(b))
        b[:len(data)] = data
        return len(data)

    def readline(self, size=-1):
        self._check()
        d = self._node.data
        end = d.find(b"\n", self._pos)
        end = len(d) if end < 0 else end + 1
        if size is not None and size >= 0:
            end = min(end, self._pos + size)
        return self.read(end - self._pos)

    def peek(self, n=0):
        return bytes(self._node.data[self._pos:self._pos + max(n, 1)])

    def write(self, b):
        self._check()
        if not self._w:
            raise io.UnsupportedOperation("not writable")
        b = bytes(b)
        if self._buffered:
            self._buf += b
            if len(self._buf) > BUFSIZE:
                self._flush_buf()
            return len(b)
        return self._write_through(b)

    def _flush_buf(self):
        if self._buf:
            b, self._buf = bytes(self._buf), bytearray()
            self._write_through(b)

    def _write_through(self, b):
        halves = [b] if (len(b) < 2 or not S.torn) else [b[:len(b) // 2], b[len(b) // 2:]]
        for i, part in enumerate(halves):
            def f(part=part):
                if self._append:
                    self._pos = len(self._node.data)
                d = self._node.data
                if self._pos > len(d):
                    d.extend(b"\0" * (self._pos - len(d)))
                d[self._pos:self._pos + len(part)] = part
                self._pos += len(part)
                return len(part)
            _do("write" if len(halves) == 1 else f"write{i + 1}of2", (_rel(self._path), part), f)
        return len(b)

    def seek(self, off, whence=0):
        self._check()
        self._flush_buf()
        if whence == 0:
            self._pos = off
        elif whence == 1:
            self._pos += off
        else:
            self._pos = len(self._node.data) + off
        return self._pos

    def tell(self):
        return self._pos + len(self._buf)

    def truncate(self, size=None):
        self._check()
        self._flush_buf()
        size = self._pos if size is None else size

        def f():
            del self._node.data[size:]
            return size
        return _do("truncate", (_rel(self._path), size), f)

    def flush(self):
        self._check()
        self._flush_buf()

    def close(self):
        if self._closed:
            return
        try:
            self._flush_buf()
            _do("close", (_rel(self._path),), lambda: None)
        finally:
            self._closed = True
            S.fds.pop(self._fd, None)

    def __del__(self):
        # never a scheduling point: an unreferenced file is closed silently
        self._closed = True
        S.fds.pop(getattr(self, "_fd", None), None)


def _flags_of(mode):
    m = mode.replace("b", "").replace("t", "")
    plus = "+" in m
    m = m.replace("+", "")
    if m == "r":
        return (os.O_RDWR if plus else os.O_RDONLY), True, plus, False
    if m == "w":
        return (os.O_RDWR if plus else os.O_WRONLY) | os.O_CREAT | os.O_TRUNC, plus, True, False
    if m == "x":
        return (os.O_RDWR if plus else os.O_WRONLY) | os.O_CREAT | os.O_EXCL, plus, True, False
    if m == "a":
        return (os.O_RDWR if plus else os.O_WRONLY) | os.O_CREAT | os.O_APPEND, plus, True, True
    raise ValueError("invalid mode: " + mode)


def v_open(file, mode="r", buffering=-1, encoding=None, errors=None, newline=None, closefd=True, opener=None):
    if isinstance(file, int) and file in S.fds:
        raw = S.fds[file]
        raw._buffered = buffering != 0   # open(fd) / os.fdopen(fd) put a buffered writer on the descriptor
    elif under(file):
        if opener is not None:
            fd = opener(os.fspath(file), _flags_of(mode)[0])
            raw = S.fds[fd]
        else:
            flags, r, w, app = _flags_of(mode)
            path = os.fspath(file)
            node = _do("open", (_rel(path), mode.replace("b", "").replace("t", "")), lambda: S.vfs.open_node(path, flags))
            if node.kind == "d":
                raise _err(errno.EISDIR, path)
            raw = VFile(node, path, r, w, app, buffered=(buffering != 0))
    else:
        return S.real["bopen"](file, mode, buffering, encoding, errors, newline, closefd, opener)
    if "b" in mode:
        return raw
    return io.TextIOWrapper(raw, encoding=encoding or "utf-8", errors=errors, newline=newline, write_through=True)


# ------------------------------------------------------------------ os functions

def _wrap_path(name, idx, impl):
    real = getattr(os, name)

    def w(*a, **k):
        if len(a) > idx and under(a[idx]) or (name in ("rename", "replace", "link", "symlink") and len(a) > 1 and under(a[1])):
            if k.get("dir_fd") is not None or k.get("src_dir_fd") is not None or k.get("dst_dir_fd") is not None:
                raise HarnessUnsupported(f"os.{name} with dir_fd on a virtual path")
            return impl(*a, **k)
        if a and isinstance(a[0], int) and a[0] in S.fds and name in ("stat", "listdir", "scandir", "chmod", "utime", "truncate"):
            raise HarnessUnsupported(f"os.{name} on a virtual file descriptor")
        return real(*a, **k)
    w.__name__ = name
    S.real[name] = real
    setattr(os, name, w)


def i_stat(p, *, dir_fd=None, follow_symlinks=True):
    p = os.fspath(p)
    return _do("stat" if follow_symlinks else "lstat", (_rel(p),), lambda: S.vfs.stat(p, follow_symlinks))


def i_lstat(p, *, dir_fd=None):
    p = os.fspath(p)
    return _do("lstat", (_rel(p),), lambda: S.vfs.stat(p, False))


def i_mkdir(p, mode=0o777, *, dir_fd=None):
    p = os.fspath(p)
    return _do("mkdir", (_rel(p),), lambda: S.vfs.mkdir(p))


def i_rmdir(p, *, dir_fd=None):
    p = os.fspath(p)
    return _do("rmdir", (_rel(p),), lambda: S.vfs.rmdir(p))


def i_unlink(p, *, dir_fd=None):
    p = os.fspath(p)
    return _do("unlink", (_rel(p),), lambda: S.vfs.unlink(p))


def i_symlink(src, dst, target_is_directory=False, *, dir_fd=None):
    src, dst = os.fspath(src), os.fspath(dst)
    return _do("symlink", (src.replace(VROOT, "<V>"), _rel(dst)), lambda: S.vfs.symlink(src, dst))


def i_readlink(p, *, dir_fd=None):
    p = os.fspath(p)

    def f():
        return S.vfs.readlink(p)
    r = _do("readlink", (_rel(p),), f)
    return r


def i_rename(src, dst, *, src_dir_fd=None, dst_dir_fd=None):
    src, dst = os.fspath(src), os.fspath(dst)
    if not (under(src) and under(dst)):
        raise _err(errno.EXDEV, src)
    return _do("rename", (_rel(src), _rel(dst)), lambda: S.vfs.rename(src, dst))


def i_link(src, dst, *, src_dir_fd=None, dst_dir_fd=None, follow_symlinks=True):
    src, dst = os.fspath(src), os.fspath(dst)
    if not (under(src) and under(dst)):
        raise _err(errno.EXDEV, src)
    return _do("link", (_rel(src), _rel(dst)), lambda: S.vfs.link(src, dst))


def i_listdir(p="."):
    p = os.fspath(p)
    return _do("listdir", (_rel(p),), lambda: S.vfs.listdir(p))


class _DirEntry:
    def __init__(self, d, name):
        self.name, self.path, self._d = name, os.path.join(d, name), d

    def is_dir(self, *, follow_symlinks=True):
        try:
            import stat
            return stat.S_ISDIR(S.vfs.stat(self.path, follow_symlinks).st_mode)
        except OSError:
            return False

    def is_file(self, *, follow_symlinks=True):
        try:
            import stat
            return stat.S_ISREG(S.vfs.stat(self.path, follow_symlinks).st_mode)
        except OSError:
            return False

    def is_symlink(self):
        try:
            import stat
            return stat.S_ISLNK(S.vfs.stat(self.path, False).st_mode)
        except OSError:
            return False

    def stat(self, *, follow_symlinks=True):
        return S.vfs.stat(self.path, follow_symlinks)

    def inode(self):
        return S.vfs.stat(self.path, False).st_ino

    def __fspath__(self):
        return self.path


class _ScanIt:
    def __init__(self, entries):
        self._it = iter(entries)

    def __iter__(self):
        return self

    def __next__(self):
        return next(self._it)

    def __enter__(self):
        return self

    def __exit__(self, *a):
        return False

    def close(self):
        pass


def i_scandir(p="."):
    p = os.fspath(p)
    names = _do("listdir", (_rel(p),), lambda: S.vfs.listdir(p))
    return _ScanIt([_DirEntry(p, n) for n in names])


def i_access(p, mode, *, dir_fd=None, effective_ids=False, follow_symlinks=True):
    p = os.fspath(p)
    try:
        _do("stat", (_rel(p),), lambda: S.vfs.stat(p, follow_symlinks))
        return True
    except OSError:
        return False


def i_chmod(p, mode, *, dir_fd=None, follow_symlinks=True):
    p = os.fspath(p)
    _do("stat", (_rel(p),), lambda: S.vfs.stat(p, follow_symlinks))


def i_utime(p, times=None, *, ns=None, dir_fd=None, follow_symlinks=True):
    p = os.fspath(p)
    _do("stat", (_rel(p),), lambda: S.vfs.stat(p, follow_symlinks))


def i_truncate(p, length):
    p = os.fspath(p)

    def f():
        n = S.vfs.lookup(p)
        del n.data[length:]
    return _do("truncate", (_rel(p), length), f)


def i_open(p, flags, mode=0o777, *, dir_fd=None):
    p = os.fspath(p)
    acc = flags & os.O_ACCMODE
    node = _do("open", (_rel(p), f"flags={flags & (os.O_CREAT | os.O_EXCL | os.O_TRUNC | os.O_APPEND | os.O_ACCMODE)}"), lambda: S.vfs.open_node(p, flags))
    if node.kind == "d":
        raise HarnessUnsupported("directory file descriptors are not modelled")
    f = VFile(node, p, acc in (os.O_RDONLY, os.O_RDWR), acc in (os.O_WRONLY, os.O_RDWR), bool(flags & os.O_APPEND), buffered=False)
    return f.fileno()


def _fd_wrap(name, impl):
    real = getattr(os, name)

    def w(fd, *a, **k):
        if isinstance(fd, int) and fd in S.fds:
            return impl(S.fds[fd], *a, **k)
        return real(fd, *a, **k)
    S.real[name] = real
    setattr(os, name, w)


def install():
    if S.installed:
        return
    S.installed = True
    S.real["bopen"] = builtins.open
    builtins.open = v_open
    io.open = v_open
    for name, idx, impl in (("stat", 0, i_stat), ("lstat", 0, i_lstat), ("mkdir", 0, i_mkdir), ("rmdir", 0, i_rmdir),
                            ("unlink", 0, i_unlink), ("remove", 0, i_unlink), ("symlink", 1, i_symlink), ("readlink", 0, i_readlink),
                            ("rename", 0, i_rename), ("replace", 0, i_rename), ("link", 0, i_link), ("listdir", 0, i_listdir),
                            ("scandir", 0, i_scandir), ("access", 0, i_access), ("chmod", 0, i_chmod), ("utime", 0, i_utime),
                            ("truncate", 0, i_truncate), ("open", 0, i_open)):
        _wrap_path(name, idx, impl)
    _fd_wrap("close", lambda f: f.close())
    _fd_wrap("write", lambda f, b: f.write(b))
    _fd_wrap("read", lambda f, n: f.read(n))
    _fd_wrap("fsync", lambda f: _do("fsync", (_rel(f._path),), lambda: None))
    _fd_wrap("fdatasync", lambda f: _do("fsync", (_rel(f._path),), lambda: None))
    _fd_wrap("fstat", lambda f: VFS._st(f._node))
    _fd_wrap("lseek", lambda f, pos, how: f.seek(pos, how))
    _fd_wrap("ftruncate", lambda f, n: f.truncate(n))
    real_fdopen = os.fdopen

    def fdopen(fd, *a, **k):
        if isinstance(fd, int) and fd in S.fds:
            return v_open(fd, *a, **k)
        return real_fdopen(fd, *a, **k)
    os.fdopen = fdopen
    for name in ("chown", "lchown", "mkfifo", "mknod", "statvfs", "walk_unsupported", "fchmod", "fchown"):
        if hasattr(os, name):
            realf = getattr(os, name)

            def guard(*a, _n=name, _r=realf, **k):
                if a and (under(a[0]) or (isinstance(a[0], int) and a[0] in S.fds)):
                    raise HarnessUnsupported(f"os.{_n} on a virtual path is not modelled")
                return _r(*a, **k)
            setattr(os, name, guard)
    try:
        import fcntl
        for name in ("flock", "lockf"):
            realf = getattr(fcntl, name)

            def lock(fd, *a, _n=name, _r=realf, **k):
                if (isinstance(fd, int) and fd in S.fds) or isinstance(fd, VFile):
                    raise HarnessUnsupported(f"fcntl.{_n} on a virtual file is not modelled")
                return _r(fd, *a, **k)
            setattr(fcntl, name, lock)
    except ImportError:
        pass
