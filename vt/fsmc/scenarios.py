"""User code and process bodies for the fsmc checks (C06, C07)."""
import importlib
import os
import sys

from .vfs import VROOT

MODS = {
    # name: source. The two versions of a module have identical text except the tracked variable.
    "fsm_a1": "import dds, pipelog\nV = 1\ndef f():\n    pipelog.hit('f')\n    return 'f(%d)' % V\ndef g():\n    pipelog.hit('g')\n    return 'g(%d)' % V\n"
              "def p():\n    pipelog.hit('p')\n    return {'k': [V, 2, 3], 's': 'x' * 40}\ndef b():\n    pipelog.hit('b')\n    return b'\\x00\\x01' * 8 + bytes([V])\n"
              "def n():\n    pipelog.hit('n')\n    return None\ndef root():\n    pipelog.hit('root')\n    x = dds.keep('/a/x', f)\n    y = dds.keep('/a/b/y', g)\n    return x + y\n",
}
MODS["fsm_a2"] = MODS["fsm_a1"].replace("V = 1", "V = 2")
MODS["fsm_b1"] = "import dds, pipelog\nW = 7\ndef h():\n    pipelog.hit('h')\n    return 'h(%d)' % W\n"
# a reader: loads a path another pipeline produces and keeps something derived from it
MODS["fsm_r1"] = ("import dds, pipelog\ndef reader():\n    pipelog.hit('reader')\n    return 'r(' + dds.load('/a/x') + ')'\n"
                  "def root_r():\n    pipelog.hit('root_r')\n    return dds.keep('/out/r', reader)\n")
PIPELOG = "cur = []\ndef hit(name):\n    cur.append(name)\n"


def expected(mod, fn):
    v = 2 if mod.endswith("a2") else 1
    return {"f": "f(%d)" % v, "g": "g(%d)" % v, "p": {"k": [v, 2, 3], "s": "x" * 40}, "b": b"\x00\x01" * 8 + bytes([v]), "n": None,
            "root": "f(%d)g(%d)" % (v, v), "h": "h(7)", "root_r": None, "reader": None}[fn]


def write_modules(scratch):
    for name, src in MODS.items():
        with open(os.path.join(scratch, name + ".py"), "w") as f:
            f.write(src)
    with open(os.path.join(scratch, "pipelog.py"), "w") as f:
        f.write(PIPELOG)
    if scratch not in sys.path:
        sys.path.insert(0, scratch)
    importlib.invalidate_caches()
    for name in list(MODS) + ["pipelog"]:
        importlib.import_module(name)


def store_kw(internal="i", data="d", cache=None, explicit=True):
    kw = {}
    if explicit:
        kw = {"internal_dir": f"{VROOT}/{internal}", "data_dir": f"{VROOT}/{data}"}
    if cache is not None:
        kw["cache_objects"] = cache
    return kw


def body(kind, mod=None, fn=None, path=None, kw=None, set_store=True):
    """kind: keep | eval | load | create"""
    kw = kw if kw is not None else store_kw()

    def run():
        import dds
        import pipelog
        pipelog.cur = []
        if mod:
            dds.accept_module(mod)
        if set_store:
            dds.set_store("local", **kw)
        m = sys.modules[mod] if mod else None
        if kind == "keep":
            r = dds.keep(path, getattr(m, fn))
        elif kind == "eval":
            r = dds.eval(getattr(m, fn))
        elif kind == "load":
            r = dds.load(path)
        elif kind == "load_twice":
            # one long-lived process loads the path, looks at a marker file (visible in the trace), and loads it again
            import os
            from .vfs import VROOT
            a = dds.load(path)
            os.path.exists(os.path.join(VROOT, "second_load_starts"))
            r = a + "|" + dds.load(path)
        elif kind == "create":
            r = None
        else:
            raise ValueError(kind)
        return (r, tuple(pipelog.cur))
    run.desc = dict(kind=kind, mod=mod, fn=fn, path=path, kw=kw, set_store=set_store)
    return run
