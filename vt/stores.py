"""Store wrappers installed through the public dds.set_store(Store) entry."""
from collections import OrderedDict

from dds.store import Store, MemoryStore


class CaptureStore(Store):
    """Delegates to an inner store and records what dds hands to it."""

    def __init__(self, inner=None):
        self.inner = inner if inner is not None else MemoryStore()
        self.syncs = []          # list of OrderedDict path -> sig, one per sync_paths call
        self.last_sync = {}
        self.stored = []         # keys passed to store_blob, in order
        self.ops = []            # (op, arg) log

    def has_blob(self, key):
        r = self.inner.has_blob(key)
        self.ops.append(("has", key, r))
        return r

    def fetch_blob(self, key):
        self.ops.append(("fetch", key))
        return self.inner.fetch_blob(key)

    def store_blob(self, key, blob, codec=None):
        self.stored.append(key)
        self.ops.append(("store", key))
        return self.inner.store_blob(key, blob, codec)

    def sync_paths(self, paths):
        d = OrderedDict((str(p), str(k)) for p, k in paths.items())
        self.syncs.append(d)
        self.last_sync = dict(d)
        self.ops.append(("sync", tuple(d.items())))
        return self.inner.sync_paths(paths)

    def fetch_paths(self, paths):
        self.ops.append(("fetch_paths", tuple(paths)))
        return self.inner.fetch_paths(paths)

    def codec_registry(self):
        return self.inner.codec_registry()


def mem_state(store):
    """(sorted blob keys, path map) of a MemoryStore (possibly wrapped)."""
    s = store
    while not isinstance(s, MemoryStore):
        s = getattr(s, "inner", None) or getattr(s, "_store")
    return (sorted(s._cache.keys()), dict(s._paths))
