"""In-process fake of the dbutils.fs API used by dds.codecs.databricks.DBFSStore (cp, head, put, rm)."""
import os


class FakeFS:
    def __init__(self):
        self.files = {}   # uri -> bytes
        self.log = []

    @staticmethod
    def _local(p):
        if p.startswith("file://"):
            return p[len("file://"):]
        if p.startswith("file:"):
            return p[len("file:"):]
        return None

    def cp(self, src, dst, recurse=False):
        self.log.append(("cp", src, dst))
        ls, ld = self._local(src), self._local(dst)
        if ls is not None:
            with open(ls, "rb") as f:
                data = f.read()
        else:
            if src not in self.files:
                raise Exception("java.io.FileNotFoundException: " + src)
            data = self.files[src]
        if ld is not None:
            with open(ld, "wb") as f:
                f.write(data)
        else:
            self.files[dst] = data
        return True

    def head(self, p, maxBytes=65536):
        self.log.append(("head", p))
        if p not in self.files:
            raise Exception("java.io.FileNotFoundException: " + p)
        return self.files[p][:maxBytes].decode("utf-8")

    def put(self, p, contents, overwrite=False):
        self.log.append(("put", p))
        if p in self.files and not overwrite:
            raise Exception("java.io.IOException: file exists " + p)
        self.files[p] = contents.encode("utf-8")
        return True

    def ls(self, p):
        self.log.append(("ls", p))
        pre = p.rstrip("/") + "/"
        out = [k for k in self.files if k == p or k.startswith(pre)]
        if not out:
            raise Exception("java.io.FileNotFoundException: " + p)
        return sorted(out)

    def rm(self, p, recurse=False):
        self.log.append(("rm", p))
        for k in [k for k in self.files if k == p or (recurse and k.startswith(p.rstrip("/") + "/"))]:
            del self.files[k]
        return True


class FakeDbutils:
    def __init__(self):
        self.fs = FakeFS()
