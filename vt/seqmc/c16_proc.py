"""One real interpreter of a C16 configuration. Reads a JSON job from argv[1], prints a JSON result."""
import json
import os
import sys


def main():
    job = json.loads(sys.argv[1])
    sys.path.insert(0, job["repo"])
    sys.path.insert(0, job["moddir"])
    sys.dont_write_bytecode = True
    import logging
    logging.disable(logging.CRITICAL)
    os.chdir(job["cwd"])
    import dds
    import c16mod
    dds.accept_module("c16mod")
    out = {"steps": []}

    def step(name, fn):
        c16mod.LOG[:] = []
        try:
            v = fn()
            if isinstance(v, bytes):
                v = v.decode("latin-1")
            out["steps"].append([name, "ok", v, list(c16mod.LOG)])
        except BaseException as e:  # noqa
            out["steps"].append([name, "exc", type(e).__name__ + ": " + str(e)[:200], list(c16mod.LOG)])

    kw = {}
    if job["cache"] != "unset":
        kw["cache_objects"] = job["cache"]
    step("set_store", lambda: dds.set_store("local", internal_dir=job["internal"], data_dir=job["data"], **kw))
    for act in job["actions"]:
        if act == "keep":
            step("keep1", lambda: c16mod.one())
            step("keep3", lambda: dds.keep("/x/y/z", c16mod.three))
        elif act == "load":
            step("load1", lambda: dds.load("/one"))
            step("load3", lambda: dds.load("/x/y/z"))
        elif act.startswith("chdir:"):
            step("chdir", lambda: os.chdir(act[6:]))
        elif act == "set_store":
            step("set_store", lambda: dds.set_store("local", internal_dir=job["internal"], data_dir=job["data"], **kw))
    print("RESULT " + json.dumps(out))


if __name__ == "__main__":
    main()
