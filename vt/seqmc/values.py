"""Bounded value grammar for C05 / C13: (expr, object) pairs, canonical forms, difference witnesses."""
import dataclasses
import datetime
import itertools
import math
from collections import OrderedDict
from pathlib import PurePosixPath


@dataclasses.dataclass
class DA:
    x: object
    y: object = 0


@dataclasses.dataclass
class DB:  # same field names as DA on purpose
    x: object
    y: object = 0


@dataclasses.dataclass
class DC:
    u: object


@dataclasses.dataclass
class D0:  # no fields
    pass


@dataclasses.dataclass
class D4:
    a: object = 0
    b: object = 0
    c: object = 0
    d: object = 0


class FixedOffset(datetime.tzinfo):
    """a user time zone as in the Python documentation (no __repr__ of its own)"""

    def __init__(self, minutes, name="X"):
        self._off, self._name = datetime.timedelta(minutes=minutes), name

    def utcoffset(self, dt):
        return self._off

    def tzname(self, dt):
        return self._name

    def dst(self, dt):
        return datetime.timedelta(0)


NS = dict(FixedOffset=FixedOffset, datetime=datetime, math=math, OrderedDict=OrderedDict, PurePosixPath=PurePosixPath,
          DA=DA, DB=DB, DC=DC, D0=D0, D4=D4)

ATOMS = [
    "None", "True", "False", "0", "1", "-1", "2", "255", "256", "2**31-1", "2**31", "-2**31", "-2**31-1",
    "2**63", "2**64", "10**30", "0.0", "-0.0", "1.0", "math.nextafter(1.0, 2.0)", "0.1", "1.5", "2.0",
    "float('nan')", "float('inf')", "float('-inf')", "''", "'a'", "'b'", "'ab'", "'|'", "'a|b'", "','", "' '",
    "'None'", "'0'", "'1'", "'[]'", "'__none__'", "'__DDS_NONE__'", "'\\u00e9'",
    "datetime.date(2020, 1, 2)", "datetime.date(2020, 1, 3)", "datetime.datetime(2020, 1, 2, 3, 4, 5)",
    "datetime.time(3, 4)", "datetime.timedelta(days=1)", "datetime.timedelta(seconds=86401)",
    "datetime.timezone.utc", "PurePosixPath('a')", "PurePosixPath('/a/b')", "PurePosixPath('.')",
]
# cross-type aliases of the packed representations: an int whose 8 bytes are a float of the alphabet, a string
# whose UTF-8 bytes are the 4-byte packing of an int / the 8-byte packing of a float
ATOMS += [
    "4607182418800017408",      # bits of 1.0
    "2**62",                    # bits of 2.0
    "9218868437227405312",      # bits of +inf
    "4609434218613702656",      # bits of 1.5
    "-2**63",                   # bits of -0.0
    "10**5000", "-10**5000", "10**5000 + 1",   # beyond the 4300-digit limit of str(int)
    "1633837924", "'abcd'",     # 0x61626364
    "1.2926117907728089e+161", "'abcdefgh'",   # struct.pack('!d', x) == b'abcdefgh'
    "'\\x00\\x00\\x00\\x01'", "'4607182418800017408'", "'1.0'", "'True'",
    "datetime.datetime(2020, 1, 2, 3, 4, 5, tzinfo=FixedOffset(60))", "datetime.datetime(2020, 1, 2, 3, 4, 5, tzinfo=FixedOffset(120))",
    "datetime.time(3, 4, tzinfo=FixedOffset(60))", "datetime.datetime(2020, 1, 2, 3, 4, 5, tzinfo=datetime.timezone.utc)",
    "'caf\\udce9'", "'\\ud800'",   # lone surrogates (a file name decoded with surrogateescape)
]
SMALL = ["None", "0", "1", "''", "'a'", "1.5", "True"]
TINY = ["None", "0", "''", "'a'"]
KEYS = ["'a'", "'b'", "''", "0", "1", "'|'"]


def ev(expr):
    return eval(expr, dict(NS))


def _pairs(exprs):
    return [(e, ev(e)) for e in exprs]


def seqs(elems, maxlen, kinds=("list", "tuple")):
    out = []
    for n in range(0, maxlen + 1):
        for combo in itertools.product(elems, repeat=n):
            es = [c[0] for c in combo]
            vs = [c[1] for c in combo]
            if "list" in kinds:
                out.append(("[" + ", ".join(es) + "]", list(vs)))
            if "tuple" in kinds:
                out.append(("(" + ", ".join(es) + ("," if n == 1 else "") + ")", tuple(vs)))
    return out


def maps(keys, vals, maxlen):
    out = []
    for n in range(0, maxlen + 1):
        for ks in itertools.permutations(keys, n):  # both insertion orders
            if len({repr(ev_k[1]) + str(type(ev_k[1])) for ev_k in ks}) < n:
                continue
            # python-equal keys (0/False, 1/True) collapse in a dict: skip such key sets
            if len({k[1] for k in ks}) < n:
                continue
            for vs in itertools.product(vals, repeat=n):
                items = list(zip(ks, vs))
                body = ", ".join(f"{k[0]}: {v[0]}" for k, v in items)
                out.append(("{" + body + "}", {k[1]: v[1] for k, v in items}))
                pairs = ", ".join(f"({k[0]}, {v[0]})" for k, v in items)
                out.append((f"OrderedDict([{pairs}])", OrderedDict((k[1], v[1]) for k, v in items)))
    return out


def dcs(vals):
    out = [("D0()", D0())]
    for a in vals:
        out.append((f"DC({a[0]})", DC(a[1])))
        for b in vals:
            out.append((f"DA({a[0]}, {b[0]})", DA(a[1], b[1])))
            out.append((f"DB({a[0]}, {b[0]})", DB(a[1], b[1])))
    return out


def universe(tier):
    atoms = _pairs(ATOMS)
    small = _pairs(SMALL)
    tiny = _pairs(TINY)
    keys = _pairs(KEYS)
    vals = list(atoms)
    d1 = seqs(atoms, 2) + seqs(small, 3) + maps(keys, small, 2) + maps(keys[:3], atoms, 1) + dcs(small)
    # dicts spelled like the dataclasses of the grammar (their field names as keys, in field order)
    fk = _pairs(["'x'", "'y'", "'u'"])
    d1 += maps(fk[:2], small, 2) + maps(fk[2:], small, 1)
    vals += d1
    # depth 2: containers of (tiny atoms + small depth-1 containers)
    inner = tiny + seqs(tiny, 2, kinds=("list",)) + seqs(tiny[:2], 1, kinds=("tuple",)) + maps(keys[:2], tiny[:3], 1) + dcs(tiny[:2])
    d2 = seqs(inner, 2) + maps(keys[:2], inner, 1 if tier == "quick" else 2) + dcs(inner[:12])
    vals += d2
    if tier == "thorough":
        inner3 = tiny[:3] + seqs(tiny[:3], 1, kinds=("list",)) + seqs(seqs(tiny[:2], 1, kinds=("list",)), 2, kinds=("list",)) \
            + maps(keys[:1], seqs(tiny[:2], 1, kinds=("list",)), 1)
        vals += seqs(inner3, 3) + maps(keys[:2], inner3, 2) + seqs(inner, 3, kinds=("list",))
    # dedupe by expression
    seen, out = set(), []
    for e, v in vals:
        if e not in seen:
            seen.add(e)
            out.append((e, v))
    return out


# ------------------------------------------------------------------ canonical form (DESIGN 4.4)

_DATE_TYPES = (datetime.datetime, datetime.date, datetime.time, datetime.timedelta, datetime.tzinfo)


def canon(v):
    if v is None:
        return ("none",)
    if isinstance(v, bool) or isinstance(v, int):
        return ("i", int(v))
    if isinstance(v, float):
        # signed zeros are two values (1 / x, copysign and str tell them apart; the property lists them)
        return ("f", "nan") if v != v else (("f", v) if v != 0 else ("f", v, math.copysign(1.0, v)))
    if isinstance(v, str):
        return ("s", v)
    if isinstance(v, PurePosixPath):
        return ("s", str(v))
    if isinstance(v, _DATE_TYPES):
        return ("s", repr(v))
    if isinstance(v, (list, tuple)):
        return ("seq", tuple(canon(x) for x in v))
    if isinstance(v, dict):
        return ("map", frozenset((canon(k), canon(x)) for k, x in v.items()))
    if dataclasses.is_dataclass(v):
        return ("dc", type(v).__qualname__, tuple((f.name, canon(getattr(v, f.name))) for f in dataclasses.fields(v)))
    return ("other", type(v).__qualname__, repr(v))


def kind(c):
    """Coarse description of a canonical form, used in cause keys."""
    t = c[0]
    if t == "none":
        return "none"
    if t == "i":
        return "int" if -2 ** 31 <= c[1] < 2 ** 31 else "bigint"
    if t == "f":
        return "float"
    if t == "s":
        if c[1] == "":
            return "str_empty"
        if c[1].startswith("__") and c[1].endswith("__"):
            return "str:" + c[1]
        return "str"
    if t == "seq":
        return "seq_empty" if not c[1] else "seq"
    if t == "map":
        return "map_empty" if not c[1] else "map"
    if t == "dc":
        return ("dc_empty:" if not c[2] else "dc:") + c[1]
    return t


def witness(a, b):
    """Smallest differing position of two canonical forms -> (kind_a, kind_b)."""
    if a == b:
        return None
    if a[0] == b[0] == "seq" and len(a[1]) == len(b[1]):
        diffs = [(x, y) for x, y in zip(a[1], b[1]) if x != y]
        if diffs:
            return witness(*diffs[0])
    if a[0] == b[0] == "dc" and a[1] == b[1]:
        diffs = [(x[1], y[1]) for x, y in zip(a[2], b[2]) if x != y]
        if diffs:
            return witness(*diffs[0])
    if a[0] == b[0] == "map" and len(a[1]) == len(b[1]):
        da, db = dict(a[1]), dict(b[1])
        if set(da) == set(db):
            diffs = sorted([(da[k], db[k]) for k in da if da[k] != db[k]], key=repr)
            if diffs:
                return witness(*diffs[0])
    def atom(c):
        k = kind(c)
        if c[0] in ("i", "f", "s") and ":" not in k:
            return k + ":" + repr(c[1])[:24]
        return k
    ka, kb = sorted([atom(a), atom(b)])
    return (ka, kb)
