"""Generic explicit-state BFS over operation sequences, by replay on freshly built real objects.

A state is the operation history reaching it. `build()` returns a fresh system (real object(s) + model),
`apply(sys, op)` performs one operation on both and returns a list of problems (strings/tuples) for that
step, `key(sys)` is the canonical state (model state + observable physical state). A state whose key was
seen is not expanded again; the search runs to closure or to `max_depth`.
"""
import collections


class Stats:
    def __init__(self):
        self.states = 0
        self.transitions = 0
        self.max_depth = 0
        self.closed = True
        self.samples = []
        self.problems = []  # (history, op, problem)


def explore(alphabet, build, apply, key, max_depth, teardown=None, stop_on_problem_state=True, sample_every=997):
    st = Stats()
    sys0 = build()
    seen = {key(sys0)}
    if teardown:
        teardown(sys0)
    frontier = collections.deque([()])
    st.states = 1
    while frontier:
        hist = frontier.popleft()
        if len(hist) >= max_depth:
            st.closed = False
            continue
        for op in alphabet:
            s = build()
            try:
                bad_prefix = False
                for h in hist:
                    if apply(s, h):
                        bad_prefix = True  # prefix already reported; do not extend below a broken state
                        break
                if bad_prefix:
                    continue
                probs = apply(s, op)
                st.transitions += 1
                if st.transitions % sample_every == 1 and len(st.samples) < 6:
                    st.samples.append([repr(o) for o in hist + (op,)])
                if probs:
                    for p in probs:
                        st.problems.append((hist, op, p))
                    if stop_on_problem_state:
                        continue
                k = key(s)
            finally:
                if teardown:
                    teardown(s)
            if k not in seen:
                seen.add(k)
                st.states += 1
                st.max_depth = max(st.max_depth, len(hist) + 1)
                frontier.append(hist + (op,))
    return st
