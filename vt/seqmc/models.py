"""Small helpers shared by the seqmc checks: value objects, canonicalisation, directory snapshots."""
import json
import os
from collections import OrderedDict


class Obj:
    """Picklable, weak-referenceable result value compared by tag."""

    def __init__(self, tag):
        self.tag = tag

    def __eq__(self, o):
        return isinstance(o, Obj) and o.tag == self.tag

    def __hash__(self):
        return hash(("Obj", self.tag))

    def __repr__(self):
        return f"Obj({self.tag!r})"


def canon(x, root=None, _depth=0):
    """Generic canonical form of an object graph (no knowledge of the classes involved)."""
    if _depth > 12:
        return "<deep>"
    if x is None or isinstance(x, (bool, int, float, bytes)):
        return x
    if isinstance(x, str):
        return x.replace(root, "<root>") if root else x
    if isinstance(x, Obj):
        return ("Obj", x.tag)
    if isinstance(x, OrderedDict):
        return ("od", tuple((canon(k, root, _depth + 1), canon(v, root, _depth + 1)) for k, v in x.items()))
    if isinstance(x, dict):
        return ("d", tuple(sorted(((canon(k, root, _depth + 1), canon(v, root, _depth + 1)) for k, v in x.items()), key=repr)))
    if isinstance(x, (list, tuple)):
        return ("l", tuple(canon(v, root, _depth + 1) for v in x))
    if isinstance(x, (set, frozenset)):
        return ("s", tuple(sorted((canon(v, root, _depth + 1) for v in x), key=repr)))
    d = getattr(x, "__dict__", None)
    if d is not None:
        return ("o", type(x).__name__, canon(d, root, _depth + 1))
    return ("r", type(x).__name__)


def tree(root, drop_meta_time=True):
    """Sorted snapshot of a directory tree: (relpath, kind, content|target)."""
    out = []
    for dp, dns, fns in os.walk(root):
        dns.sort()
        for n in sorted(dns + fns):
            p = os.path.join(dp, n)
            rel = os.path.relpath(p, root)
            if os.path.islink(p):
                out.append((rel, "l", os.readlink(p).replace(root, "<root>")))
            elif os.path.isdir(p):
                out.append((rel, "d", ""))
            else:
                data = open(p, "rb").read()
                if drop_meta_time and n.endswith(".meta"):
                    try:
                        j = json.loads(data)
                        j.pop("timestamp_millis", None)
                        data = json.dumps(j, sort_keys=True).encode()
                    except Exception:
                        pass
                out.append((rel, "f", data if len(data) < 200 else (len(data), hash(data))))
    return tuple(out)


def call(fn, *a):
    """Uniform observation of a call: ('ok', value) | ('dds', code) | ('exc', name)."""
    try:
        return ("ok", fn(*a))
    except BaseException as e:  # noqa
        if type(e).__name__ == "DDSException":
            c = getattr(e, "error_code", None)
            return ("dds", getattr(c, "name", None))
        if isinstance(e, (KeyboardInterrupt, SystemExit, MemoryError)):
            raise
        t = type(e)
        return ("exc", t.__name__ if t.__module__ == "builtins" else f"{t.__module__}.{t.__name__}")


class Lossy:
    """a value whose pickled form drops a field: the object read back from a file store differs from the live one"""

    def __init__(self, tag):
        self.tag = tag
        self.scratch = "only in memory"

    def __getstate__(self):
        return {"tag": self.tag}

    def __setstate__(self, st):
        self.tag = st["tag"]
        self.scratch = None

    def __eq__(self, o):
        return isinstance(o, Lossy) and (o.tag, o.scratch) == (self.tag, self.scratch)

    def __hash__(self):
        return hash(("Lossy", self.tag))

    def __repr__(self):
        return f"Lossy({self.tag!r}, scratch={self.scratch!r})"
