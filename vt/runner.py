"""./check <ID> [--tier quick|thorough] [--replay file]

exit 0: property held on everything explored (known findings are listed, not alarms)
exit 1: at least one 'VIOLATION property=<id> replay=<path>' line was printed
exit 2: harness error (never a finding)
"""
import argparse
import importlib
import json
import os
import subprocess
import sys
import traceback
from concurrent.futures import ThreadPoolExecutor

from . import core
from .core import HarnessError, Result, Violation

LEVELS = {"exploration", "fault_enumeration", "model_checking"}


def _write_replay(v: Violation) -> str:
    d = os.path.join(os.environ.get("VERIF_OUT") or core.VERIF, "replays", v.prop)
    os.makedirs(d, exist_ok=True)
    p = os.path.join(d, v.digest() + ".json")
    with open(p, "w", encoding="utf-8") as f:
        json.dump({"property": v.prop, "cause_key": v.key, "what": v.what, "case": v.replay}, f,
                  indent=1, sort_keys=True, default=repr)
    return p


def _confirm(prop: str, path: str, key: str):
    """Re-run the single case from its replay file in a fresh interpreter."""
    env = dict(os.environ)
    env["PYTHONPATH"] = core.VERIF
    env["PYTHONDONTWRITEBYTECODE"] = "1"
    env.setdefault("PYTHONHASHSEED", "0")
    p = subprocess.run([core.PY, "-m", "vt.runner", prop, "--replay", path, "--machine"],
                       cwd=core.VERIF, env=env, capture_output=True, text=True, timeout=900)
    keys = [l[len("REPRODUCED key="):].strip() for l in p.stdout.splitlines() if l.startswith("REPRODUCED key=")]
    if p.returncode not in (0, 1):
        return ("error", p.stdout[-2000:] + p.stderr[-2000:])
    return ("ok", keys)


def _validate_evidence(ev: dict):
    try:
        import jsonschema
    except ImportError:
        return
    for cand in ("/root/.vp/EVIDENCE.schema.json", os.path.join(core.VERIF, "schemas", "EVIDENCE.schema.json")):
        if os.path.exists(cand):
            jsonschema.validate(ev, json.load(open(cand)))
            return


def write_evidence(res: Result, tier: str, wall: float, n_viol: int, known, extra=None):
    cov = dict(res.coverage)
    cov.setdefault("samples", [])
    cov["known_findings_matched"] = sorted(known)
    if extra:
        cov.update(extra)
    ev = {
        "property_id": res.prop,
        "tier": tier,
        "seed": core.seed(),
        "level": res.level,
        "coverage": cov,
        "assumptions": res.assumptions,
        "wall_s": wall,
        "violations": n_viol,
    }
    _validate_evidence(ev)
    d = os.path.join(os.environ.get("VERIF_OUT") or core.VERIF, "evidence")
    os.makedirs(d, exist_ok=True)
    tmp = os.path.join(d, f".{res.prop}.json.tmp")
    with open(tmp, "w", encoding="utf-8") as f:
        json.dump(ev, f, indent=1, sort_keys=True, default=repr)
    os.replace(tmp, os.path.join(d, f"{res.prop}.json"))


def main(argv=None) -> int:
    ap = argparse.ArgumentParser()
    ap.add_argument("prop")
    ap.add_argument("--tier", default=os.environ.get("VERIF_TIER", "quick"), choices=["quick", "thorough"])
    ap.add_argument("--replay")
    ap.add_argument("--machine", action="store_true")
    ap.add_argument("--no-confirm", action="store_true")
    a = ap.parse_args(argv)
    prop = a.prop.upper()
    timer = core.Timer()
    try:
        core.ensure_repo_dds()
        mod = importlib.import_module("vt.checks." + prop.lower())
    except Exception:
        traceback.print_exc()
        print(f"HARNESS-ERROR property={prop} cannot load check")
        return 2

    if a.replay:
        data = json.load(open(a.replay))
        try:
            vs = mod.replay(data["case"])
        except HarnessError:
            traceback.print_exc()
            return 2
        for v in vs:
            print(f"REPRODUCED key={v.key}")
            if not a.machine:
                print(f"  {v.what}")
        if vs and not a.machine:
            print(f"VIOLATION property={prop} replay={a.replay}")
        return 1 if vs else 0

    try:
        res: Result = mod.run(a.tier, core.seed())
    except HarnessError as e:
        traceback.print_exc()
        print(f"HARNESS-ERROR property={prop} {e}")
        return 2
    except Exception as e:
        traceback.print_exc()
        print(f"HARNESS-ERROR property={prop} {type(e).__name__}: {e}")
        return 2
    assert res.level in LEVELS

    # group by cause key; confirm one representative per key from its replay file in a fresh process
    groups = {}
    for v in res.violations:
        groups.setdefault(v.key, []).append(v)
    findings = core.load_findings()
    reps = []
    for key, vs in groups.items():
        v = vs[0]
        reps.append((key, v, _write_replay(v), len(vs)))
    confirmed = {}
    if reps and not a.no_confirm:
        with ThreadPoolExecutor(max_workers=core.ncpu()) as ex:
            futs = {key: ex.submit(_confirm, prop, path, key) for key, v, path, n in reps}
        for key, fut in futs.items():
            confirmed[key] = fut.result()
    known_lines, viol_lines, harness = [], [], []
    for key, v, path, n in reps:
        if not a.no_confirm:
            st, info = confirmed[key]
            if st != "ok" or key not in info:
                harness.append(f"HARNESS-ERROR property={prop} case did not reproduce from replay: key={key} replay={path} got={info}")
                continue
        f = core.match_finding(v, findings)
        if f is not None:
            known_lines.append((f, key, n, v))
        else:
            viol_lines.append((key, n, v, path))
    seen_f = {}
    for f, key, n, v in known_lines:
        seen_f.setdefault((f.pattern, f.what), []).append((key, n))
    for (pat, what), ks in sorted(seen_f.items()):
        tot = sum(n for _, n in ks)
        print(f"KNOWN-FINDING: property={prop} {what} [key={pat}; {tot} case(s), {len(ks)} cause key(s)]")
    for key, n, v, path in viol_lines:
        print(f"  cause={key} cases={n}: {v.what}")
        print(f"VIOLATION property={prop} replay={path}")
    for h in harness:
        print(h)
    for nline in res.notes:
        print("note:", nline)
    try:
        write_evidence(res, a.tier, timer.s(), sum(n for _, n, _, _ in viol_lines),
                       [pat for (pat, _w) in seen_f.keys()],
                       {"violating_cause_keys": sorted(k for k, _, _, _ in viol_lines),
                        "known_cause_keys": sorted({k for _, k, _, _ in known_lines})})
    except Exception as e:
        traceback.print_exc()
        print(f"HARNESS-ERROR property={prop} evidence: {type(e).__name__}: {e}")
        return 2
    cov = res.coverage
    summ = {k: cov[k] for k in ("states", "transitions", "evaluations", "distinct_nontrivial",
                                "traces_validated_against_impl", "exhaustive", "distinct_outcomes") if k in cov}
    print(f"{prop} tier={a.tier} seed={core.seed()} wall={timer.s()}s {summ} "
          f"violations={len(viol_lines)} known={len(seen_f)}")
    if viol_lines:
        return 1   # every listed violation was reproduced from its replay file in a fresh interpreter: it stands, whatever else went wrong
    if harness:
        return 2
    return 0


def _main_with_scratch() -> int:
    """every scratch file of the run (also of forked workers and child interpreters, whose exit handlers do not run) lives under
    one directory that the main process removes when the check ends"""
    import shutil
    import tempfile
    base = os.environ.get("VERIF_SCRATCH") or tempfile.gettempdir()
    run_tmp = tempfile.mkdtemp(prefix="ddsvt_run_", dir=base)
    os.environ["TMPDIR"] = run_tmp
    os.environ["VERIF_SCRATCH"] = run_tmp
    tempfile.tempdir = run_tmp
    try:
        return main()
    finally:
        shutil.rmtree(run_tmp, ignore_errors=True)


if __name__ == "__main__":
    sys.exit(_main_with_scratch())
